package sim

import (
	"math"
	"strings"
)

func init() {
	push := func(left, onlyIfExists bool) func(m *Model, s *Sess, a []string, _ bool) Expect {
		return func(m *Model, s *Sess, a []string, _ bool) Expect {
			o := m.get(s, a[1])
			if o != nil && o.T != tList {
				return eWrongType()
			}
			if o == nil {
				if onlyIfExists {
					return eInt(0)
				}
				o = &mObj{T: tList}
				m.set(s, a[1], o)
			}
			for _, e := range a[2:] {
				if left {
					o.L = append([]string{e}, o.L...)
				} else {
					o.L = append(o.L, e)
				}
			}
			m.modified(s, a[1])
			return eInt(int64(len(o.L)))
		}
	}
	reg("lpush", -3, true, push(true, false))
	reg("rpush", -3, true, push(false, false))
	reg("lpushx", -3, true, push(true, true))
	reg("rpushx", -3, true, push(false, true))
	pop := func(left bool) func(m *Model, s *Sess, a []string, _ bool) Expect {
		return func(m *Model, s *Sess, a []string, _ bool) Expect {
			if len(a) > 3 {
				return eArgErr()
			}
			hasCount := len(a) == 3
			cnt := int64(1)
			if hasCount {
				c, ok := parseInt(a[2])
				if !ok || c < 0 {
					return eArgErr()
				}
				cnt = c
			}
			o := m.get(s, a[1])
			if o == nil {
				return eNil()
			}
			if o.T != tList {
				return eWrongType()
			}
			if !hasCount {
				return eBulk(m.listPop(s, a[1], o, left))
			}
			var out []string
			for i := int64(0); i < cnt && len(o.L) > 0; i++ {
				out = append(out, m.listPop(s, a[1], o, left))
			}
			return eBulkArr(out)
		}
	}
	reg("lpop", -2, true, pop(true))
	reg("rpop", -2, true, pop(false))
	reg("llen", 2, false, func(m *Model, s *Sess, a []string, _ bool) Expect {
		o := m.get(s, a[1])
		if o == nil {
			return eInt(0)
		}
		if o.T != tList {
			return eWrongType()
		}
		return eInt(int64(len(o.L)))
	})
	reg("lindex", 3, false, func(m *Model, s *Sess, a []string, _ bool) Expect {
		idx, ok := parseInt(a[2])
		o := m.get(s, a[1])
		if o != nil && o.T != tList {
			if !ok {
				return eArgErr()
			}
			return eWrongType()
		}
		if !ok {
			if o == nil {
				return eAlt(eNil(), eArgErr())
			}
			return eArgErr()
		}
		if o == nil {
			return eNil()
		}
		n := int64(len(o.L))
		if idx < 0 {
			idx += n
		}
		if idx < 0 || idx >= n {
			return eNil()
		}
		return eBulk(o.L[idx])
	})
	reg("lrange", 4, false, func(m *Model, s *Sess, a []string, _ bool) Expect {
		start, ok1 := parseInt(a[2])
		stop, ok2 := parseInt(a[3])
		if !ok1 || !ok2 {
			return eArgErr()
		}
		o := m.get(s, a[1])
		if o == nil {
			return eBulkArr(nil)
		}
		if o.T != tList {
			return eWrongType()
		}
		lo, hi, empty := clampRange(start, stop, int64(len(o.L)))
		if empty {
			return eBulkArr(nil)
		}
		return eBulkArr(o.L[lo : hi+1])
	})
	reg("lset", 4, true, func(m *Model, s *Sess, a []string, _ bool) Expect {
		idx, ok := parseInt(a[2])
		o := m.get(s, a[1])
		if !ok {
			return eArgErr()
		}
		if o == nil {
			return eArgErr()
		}
		if o.T != tList {
			return eWrongType()
		}
		n := int64(len(o.L))
		if idx < 0 {
			idx += n
		}
		if idx < 0 || idx >= n {
			return eArgErr()
		}
		o.L[idx] = a[3]
		m.modified(s, a[1])
		return eOK()
	})
	reg("linsert", 5, true, func(m *Model, s *Sess, a []string, _ bool) Expect {
		w := upper(a[2])
		if w != "BEFORE" && w != "AFTER" {
			return eArgErr()
		}
		o := m.get(s, a[1])
		if o == nil {
			return eInt(0)
		}
		if o.T != tList {
			return eWrongType()
		}
		for i, e := range o.L {
			if e == a[3] {
				at := i
				if w == "AFTER" {
					at = i + 1
				}
				nl := make([]string, 0, len(o.L)+1)
				nl = append(nl, o.L[:at]...)
				nl = append(nl, a[4])
				nl = append(nl, o.L[at:]...)
				o.L = nl
				m.modified(s, a[1])
				return eInt(int64(len(o.L)))
			}
		}
		return eInt(-1)
	})
	reg("lrem", 4, true, func(m *Model, s *Sess, a []string, _ bool) Expect {
		cnt, ok := parseInt(a[2])
		if !ok {
			return eArgErr()
		}
		o := m.get(s, a[1])
		if o == nil {
			return eInt(0)
		}
		if o.T != tList {
			return eWrongType()
		}
		removed := int64(0)
		var nl []string
		if cnt >= 0 {
			for _, e := range o.L {
				if e == a[3] && (cnt == 0 || removed < cnt) {
					removed++
					continue
				}
				nl = append(nl, e)
			}
		} else {
			lim := -cnt
			if cnt == math.MinInt64 {
				lim = math.MaxInt64
			}
			for i := len(o.L) - 1; i >= 0; i-- {
				e := o.L[i]
				if e == a[3] && removed < lim {
					removed++
					continue
				}
				nl = append([]string{e}, nl...)
			}
		}
		if removed > 0 {
			o.L = nl
			m.modified(s, a[1])
			if len(o.L) == 0 {
				m.del(s, a[1])
			}
		}
		return eInt(removed)
	})
	reg("ltrim", 4, true, func(m *Model, s *Sess, a []string, _ bool) Expect {
		start, ok1 := parseInt(a[2])
		stop, ok2 := parseInt(a[3])
		if !ok1 || !ok2 {
			return eArgErr()
		}
		o := m.get(s, a[1])
		if o == nil {
			return eOK()
		}
		if o.T != tList {
			return eWrongType()
		}
		lo, hi, empty := clampRange(start, stop, int64(len(o.L)))
		if empty {
			m.del(s, a[1])
			return eOK()
		}
		if lo != 0 || hi != int64(len(o.L))-1 {
			o.L = append([]string(nil), o.L[lo:hi+1]...)
			m.modified(s, a[1])
		}
		return eOK()
	})
	reg("lpos", -3, false, mLpos)
	reg("lmove", 5, true, func(m *Model, s *Sess, a []string, _ bool) Expect {
		sl, ok1 := side(a[3])
		dl, ok2 := side(a[4])
		if !ok1 || !ok2 {
			return eArgErr()
		}
		return m.lmove(s, a[1], a[2], sl, dl)
	})
	reg("rpoplpush", 3, true, func(m *Model, s *Sess, a []string, _ bool) Expect {
		return m.lmove(s, a[1], a[2], false, true)
	})
	reg("lmpop", -4, true, func(m *Model, s *Sess, a []string, _ bool) Expect { return m.lmpop(s, a[1:]) })
	// blocking forms: the model gives the immediate result; the engine-level
	// oracles (C11/C12) deal with actual blocking.
	bpop := func(left bool) func(m *Model, s *Sess, a []string, inExec bool) Expect {
		return func(m *Model, s *Sess, a []string, inExec bool) Expect {
			if _, bad := parseTimeout(a[len(a)-1]); bad {
				return eArgErr()
			}
			for _, k := range a[1 : len(a)-1] {
				o := m.get(s, k)
				if o == nil {
					continue
				}
				if o.T != tList {
					return eWrongType()
				}
				v := m.listPop(s, k, o, left)
				return eBulkArr([]string{k, v})
			}
			return eBlockOrUnblocked(inExec)
		}
	}
	reg("blpop", -3, true, bpop(true))
	reg("brpop", -3, true, bpop(false))
	reg("blmove", 6, true, func(m *Model, s *Sess, a []string, inExec bool) Expect {
		sl, ok1 := side(a[3])
		dl, ok2 := side(a[4])
		if !ok1 || !ok2 {
			return eArgErr()
		}
		if _, bad := parseTimeout(a[5]); bad {
			return eArgErr()
		}
		r := m.lmove(s, a[1], a[2], sl, dl)
		if r.Mode == exExact && r.V.K == KNil {
			return eBlockOrUnblocked(inExec)
		}
		return r
	})
	reg("brpoplpush", 4, true, func(m *Model, s *Sess, a []string, inExec bool) Expect {
		if _, bad := parseTimeout(a[3]); bad {
			return eArgErr()
		}
		r := m.lmove(s, a[1], a[2], false, true)
		if r.Mode == exExact && r.V.K == KNil {
			return eBlockOrUnblocked(inExec)
		}
		return r
	})
	reg("blmpop", -5, true, func(m *Model, s *Sess, a []string, inExec bool) Expect {
		if _, bad := parseTimeout(a[1]); bad {
			return eArgErr()
		}
		r := m.lmpop(s, a[2:])
		if r.Mode == exExact && r.V.K == KNil {
			return eBlockOrUnblocked(inExec)
		}
		return r
	})
}

// eBlock marks "the command would block now" (nil reply when inside EXEC).
func eBlock() Expect { return Expect{V: Value{K: KNil}, Note: "would-block"} }

// eBlockOrUnblocked: outside EXEC a block may also be ended by CLIENT UNBLOCK
// ... ERROR; whether such a command was issued is C12's concern, for the
// sequential model the command simply did not find an element.
func eBlockOrUnblocked(inExec bool) Expect {
	if inExec {
		return eBlock()
	}
	e := eAlt(eBlock(), eErr("UNBLOCKED"))
	e.Note = "would-block"
	return e
}

func (e Expect) WouldBlock() bool { return e.Note == "would-block" }

func parseTimeout(a string) (float64, bool) {
	f, ok := parseFloat(a)
	if !ok || f < 0 || math.IsNaN(f) || math.IsInf(f, 0) {
		return 0, true
	}
	return f, false
}

func side(a string) (left bool, ok bool) {
	switch upper(a) {
	case "LEFT":
		return true, true
	case "RIGHT":
		return false, true
	}
	return false, false
}

// clampRange applies Redis' LRANGE/LTRIM index rules; returns inclusive bounds.
func clampRange(start, stop, n int64) (lo, hi int64, empty bool) {
	if start < 0 {
		start += n
	}
	if stop < 0 {
		stop += n
	}
	if start < 0 {
		start = 0
	}
	if start > stop || start >= n {
		return 0, 0, true
	}
	if stop >= n {
		stop = n - 1
	}
	return start, stop, false
}

func (m *Model) listPop(s *Sess, key string, o *mObj, left bool) string {
	var v string
	if left {
		v = o.L[0]
		o.L = o.L[1:]
	} else {
		v = o.L[len(o.L)-1]
		o.L = o.L[:len(o.L)-1]
	}
	m.modified(s, key)
	if len(o.L) == 0 {
		m.del(s, key)
	}
	return v
}

func (m *Model) lmove(s *Sess, src, dst string, srcLeft, dstLeft bool) Expect {
	so := m.get(s, src)
	if so == nil {
		return eNil()
	}
	if so.T != tList {
		return eWrongType()
	}
	do := m.get(s, dst)
	if do != nil && do.T != tList {
		return eWrongType()
	}
	var v string
	if srcLeft {
		v = so.L[0]
		so.L = so.L[1:]
	} else {
		v = so.L[len(so.L)-1]
		so.L = so.L[:len(so.L)-1]
	}
	m.modified(s, src)
	if src == dst {
		do = so
	}
	if do == nil {
		do = &mObj{T: tList}
		m.set(s, dst, do)
	}
	if dstLeft {
		do.L = append([]string{v}, do.L...)
	} else {
		do.L = append(do.L, v)
	}
	m.modified(s, dst)
	if len(so.L) == 0 {
		m.del(s, src)
	}
	return eBulk(v)
}

// lmpop: a = numkeys key... LEFT|RIGHT [COUNT n]
func (m *Model) lmpop(s *Sess, a []string) Expect {
	nk, ok := parseInt(a[0])
	if !ok || nk <= 0 {
		return eArgErr()
	}
	if int64(len(a)) < 1+nk+1 {
		return eArgErr()
	}
	keys := a[1 : 1+nk]
	rest := a[1+nk:]
	left, ok := side(rest[0])
	if !ok {
		return eArgErr()
	}
	cnt := int64(1)
	rest = rest[1:]
	if len(rest) > 0 {
		if len(rest) != 2 || upper(rest[0]) != "COUNT" {
			return eArgErr()
		}
		c, ok := parseInt(rest[1])
		if !ok || c <= 0 {
			return eArgErr()
		}
		cnt = c
	}
	for _, k := range keys {
		o := m.get(s, k)
		if o == nil {
			continue
		}
		if o.T != tList {
			return eWrongType()
		}
		var out []string
		for i := int64(0); i < cnt && len(o.L) > 0; i++ {
			out = append(out, m.listPop(s, k, o, left))
		}
		return eArr(eBulk(k), eBulkArr(out))
	}
	return eNil()
}

func mLpos(m *Model, s *Sess, a []string, _ bool) Expect {
	rank, count, maxlen := int64(1), int64(-1), int64(0)
	for i := 3; i < len(a); i += 2 {
		if i+1 >= len(a) {
			return eArgErr()
		}
		n, ok := parseInt(a[i+1])
		switch upper(a[i]) {
		case "RANK":
			if !ok || n == 0 || n == math.MinInt64 {
				return eArgErr()
			}
			rank = n
		case "COUNT":
			if !ok || n < 0 {
				return eArgErr()
			}
			count = n
		case "MAXLEN":
			if !ok || n < 0 {
				return eArgErr()
			}
			maxlen = n
		default:
			return eArgErr()
		}
	}
	o := m.get(s, a[1])
	if o == nil {
		if count != -1 {
			return eBulkArr(nil)
		}
		return eNil()
	}
	if o.T != tList {
		return eWrongType()
	}
	n := int64(len(o.L))
	var found []int64
	want := count
	if count == -1 {
		want = 1
	}
	skip := rank
	if skip < 0 {
		skip = -skip
	}
	skip--
	examined := int64(0)
	for k := int64(0); k < n; k++ {
		if maxlen > 0 && examined >= maxlen {
			break
		}
		examined++
		i := k
		if rank < 0 {
			i = n - 1 - k
		}
		if o.L[i] == a[2] {
			if skip > 0 {
				skip--
				continue
			}
			found = append(found, i)
			if want > 0 && int64(len(found)) >= want {
				break
			}
		}
	}
	if count == -1 {
		if len(found) == 0 {
			return eNil()
		}
		return eInt(found[0])
	}
	v := Value{K: KArray, A: make([]Value, len(found))}
	for i, f := range found {
		v.A[i] = Value{K: KInt, I: f}
	}
	return Expect{V: v}
}

var _ = strings.ToUpper
