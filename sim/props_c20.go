package sim

import (
	"fmt"
	"os"
	"runtime"
	"strconv"
	"strings"
)

// C20: lifecycle. Instance 0 is terminated while its clients are in every kind
// of state; a successor is started on the same port; a second instance keeps
// serving its own clients throughout.

func genLifePlan(seed uint64, thorough bool) *Plan {
	g := newGen(seed, 13)
	p := &Plan{Prop: "C20", Seed: seed, Knobs: Knobs{RandSeed: int64(seed), MaxSteps: 120000, IdleCap: 3000, Persist: false}}
	p.Knobs.Sticky = []int{0, 40, 80}[g.r.IntN(3)]
	p.Knobs.Stall = []int{0, 20, 20, 40}[g.r.IntN(4)]
	p.Knobs.PCT = []int{0, 0, 0, 2, 3}[g.r.IntN(5)]
	p.Knobs.UnlockYield = g.chance(2)
	p.Knobs.Frag = g.chance(3)
	p.Knobs.RandAdv = []int{0, 0, 12}[g.r.IntN(3)]
	second := g.chance(2)
	cycles := 1 + g.r.IntN(3)
	var clients []Client
	admin := []Item{}
	if second {
		admin = append(admin, Item{Op: "emu-new", N: 1}, Item{Op: "emu-start", N: 1})
	}
	admin = append(admin, Item{Op: "barrier", N: 1})
	// bystander clients on instance 1: own model, must never notice anything
	if second {
		for b := 0; b < 1+g.r.IntN(2); b++ {
			g.client = 30 + b
			pre := "b" + strconv.Itoa(b) + ":"
			g.keys = []string{pre + "k0", pre + "k1"}
			items := []Item{{Op: "barrier", N: 1}}
			for i := 0; i < 8+g.r.IntN(20); i++ {
				var a []string
				switch g.r.IntN(5) {
				case 0:
					a = g.stringCmd(simEpochNs)
				case 1:
					a = g.listCmd()
				case 2:
					a = g.hashCmd()
				case 3:
					a = g.setCmd()
				default:
					a = []string{"CLIENT", "LIST"}
				}
				if isBlockingCmd(a[0]) {
					a = []string{"PING"}
				}
				if setsExpiry(a) {
					// (the clock may jump between the execution of a command and the
					// arrival of its reply, which is when the bystander's model runs it:
					// a deadline would be computed from two different instants)
					a = []string{"GET", g.key()}
				}
				items = append(items, Item{Args: bs(a...), Tag: "bystander"})
			}
			items = append(items, Item{Args: bs("PING"), Tag: "bystander"})
			clients = append(clients, Client{Name: "bystander", Emu: 1, Items: items})
		}
	}
	if second && g.chance(2) {
		// a client of the first instance names a connection of the second one in
		// CLIENT KILL (by its id - the ids come from one counter - or by a filter
		// that fits it): instances do not see each other's clients
		kill := cmdItem("CLIENT", "KILL", "ID", "$id:1")
		switch g.r.IntN(4) {
		case 0:
			kill = cmdItem("CLIENT", "KILL", "ID", "$id:1", "SKIPME", "no")
		case 1:
			kill = cmdItem("CLIENT", "KILL", "LADDR", ":7001")
		}
		clients = append(clients, Client{Name: "killer", Items: []Item{{Op: "barrier", N: 1}, cmdItem("PING"), kill, cmdItem("PING")}})
	}
	bar := int64(1)
	for cy := 0; cy < cycles; cy++ {
		// victims of this generation, each in a different state when termination comes
		nv := 1 + g.r.IntN(4)
		for v := 0; v < nv; v++ {
			g.client = cy*10 + v
			key := "g" + strconv.Itoa(cy) + "v" + strconv.Itoa(v)
			items := []Item{{Op: "barrier", N: bar}, cmdItem("SET", key, "alive"), cmdItem("RPUSH", "shared", key)}
			state := g.pick("idle", "mid-frame", "multi", "blocked", "not-reading", "busy", "reblocked", "reset-inflight")
			var helper *Client
			switch state {
			case "idle":
			case "reblocked":
				// blocked, released by CLIENT UNBLOCK, blocked again: the second
				// block has to be ended by the termination
				me := 1 + len(clients) // index in p.Clients (admin is 0)
				items = append(items, cmdItem("CLIENT", "ID"), Item{Args: bs("BLPOP", "nothing"+strconv.Itoa(v), "0"), Tag: "released"},
					cmdItem("PING"), Item{Args: bs(g.pick("BLPOP", "BRPOP"), "nothing"+strconv.Itoa(v), "0"), Tag: "blocked"})
				helper = &Client{Name: "unblocker", Lazy: true, Items: []Item{{Op: "barrier", N: bar}, {Op: "await-blocked", N: int64(me)},
					{Args: bs("CLIENT", "UNBLOCK", "$id:"+strconv.Itoa(me)), Tag: "helper"}}}
			case "mid-frame":
				items = append(items, Item{Raw: B("*3\r\n$3\r\nSET\r\n$" + strconv.Itoa(len(key)) + "\r\n" + key + "\r\n$5\r\nha"), NoReply: true, Tag: "half"})
			case "multi":
				items = append(items, cmdItem("MULTI"), cmdItem("SET", key, "queued"), cmdItem("INCR", "cnt"))
			case "blocked":
				// (with a timeout, sometimes: the termination may coincide with the
				// moment the block ends by itself)
				items = append(items, Item{Args: bs(g.pick("BLPOP", "BRPOP"), "nothing"+strconv.Itoa(v), g.pick("0", "0", "0.02", "0.3", "2")), Tag: "blocked"})
			case "not-reading":
				items = append(items, Item{Op: "stop-reading", N: 64}, cmdItem("SET", key+":big", strings.Repeat("x", 3000)))
				for i := 0; i < 4; i++ {
					items = append(items, Item{Args: bs("GET", key+":big"), Tag: "unread"})
				}
			case "busy":
				for i := 0; i < 6; i++ {
					items = append(items, cmdItem("INCR", key+":n"))
				}
			case "reset-inflight":
				// the client is gone (connection reset) before the replies to its last
				// commands are written: the writes fail, and the connection must still
				// count as one to shut down when the termination comes
				for i := 0; i < 1+g.r.IntN(3); i++ {
					items = append(items, cmdItem("INCR", key+":n"))
				}
				items = append(items, Item{Op: "reset", Now: true})
			}
			// wait for the termination to have returned, then try to use the old connection
			items = append(items, Item{Op: "barrier", N: bar + 1, Now: true})
			after := []string{"SET", key, "after-close"}
			if state == "multi" {
				after = []string{"EXEC"}
			}
			items = append(items, Item{Args: bs(after...), Tag: "after-close"}, Item{Args: bs("GET", key), Tag: "after-close"})
			depth := 1
			if state == "blocked" || state == "not-reading" || state == "busy" || state == "reset-inflight" {
				depth = 8
			}
			clients = append(clients, Client{Name: "victim-" + state, Items: items, Depth: depth, Lazy: true})
			if helper != nil {
				clients = append(clients, *helper)
			}
		}
		// admin: terminate at a tape-chosen moment after the victims got going
		admin = append(admin, Item{Op: "barrier", N: bar})
		if g.chance(2) {
			admin = append(admin, Item{Op: "await-idle"})
		}
		if g.chance(2) {
			admin = append(admin, Item{Op: "emu-close", N: 0, Tag: "terminate"})
		} else {
			admin = append(admin, Item{Op: "emu-term", N: 0, Tag: "terminate"}, Item{Op: "emu-wait", N: 0, Tag: "terminate"})
		}
		admin = append(admin, Item{Op: "barrier", N: bar + 1})
		// a newcomer tries to connect while nothing listens
		clients = append(clients, Client{Name: "latecomer", Lazy: true, Items: []Item{{Op: "barrier", N: bar + 1}, {Args: bs("PING"), Tag: "refused"}, {Op: "barrier", N: bar + 2}}})
		admin = append(admin, Item{Op: "barrier", N: bar + 2})
		// successor on the same port, at once
		admin = append(admin, Item{Op: "emu-new", N: 0}, Item{Op: "emu-start", N: 0, Tag: "successor"}, Item{Op: "barrier", N: bar + 3})
		fresh := []Item{{Op: "barrier", N: bar + 3}, {Args: bs("DBSIZE"), Tag: "fresh-dbsize"}, {Args: bs("LLEN", "shared"), Tag: "fresh-zero"}, {Args: bs("EXISTS", "cnt"), Tag: "fresh-zero"}, {Args: bs("CLIENT", "LIST"), Tag: "fresh-list"}}
		fresh = append(fresh, Item{Op: "barrier", N: bar + 4})
		clients = append(clients, Client{Name: "fresh", Lazy: true, Items: fresh})
		bar += 4
	}
	// release all remaining barriers for victims of the last generation
	p.Clients = append([]Client{{Name: "admin", Items: admin}}, clients...)
	return p
}

type lifeChecker struct {
	plan         *Plan
	frame        *frameChecker
	counts       map[string]int
	termReturned []int64 // steps at which a termination of instance 0 had returned
}

func newLifeChecker(p *Plan) Checker {
	return &lifeChecker{plan: p, frame: newFrameChecker(p).(*frameChecker), counts: map[string]int{}}
}

func (c *lifeChecker) OnStep(w *World) *Violation { return nil }
func (c *lifeChecker) Extra() map[string]int      { return c.counts }

func (c *lifeChecker) OnReply(w *World, op *Op) *Violation {
	name := w.plan.Clients[op.Client].Name
	bad := func(fp, format string, a ...any) *Violation {
		return &Violation{Oracle: "lifecycle", Step: w.step, Fp: "life:" + fp, Msg: fmt.Sprintf(format, a...) + "\n" + historyTail(w, 30)}
	}
	switch {
	case name == "bystander":
		if op.Lost {
			return bad("bystander-closed", "a connection of the second emulator instance was closed although only the first instance was terminated (command #%d %s)", op.Idx, fmtArgs(strs(op.Item.Args)))
		}
		if strings.EqualFold(string(op.Item.Args[0]), "client") {
			// only this instance's connections may be listed
			txt := op.Reply.S
			for _, ln := range strings.Split(strings.TrimSpace(txt), "\n") {
				if ln != "" && !strings.Contains(ln, "laddr=:7001") {
					return bad("instances-share-clients", "CLIENT LIST on the second instance lists a connection of another instance: %q", ln)
				}
			}
			c.counts["bystander-lists"]++
			return nil
		}
		c.counts["bystander-ok"]++
		return c.frame.OnReply(w, op)
	case op.AfterClose:
		c.counts["after-close-attempts"]++
		if !op.Lost && op.Return >= 0 && !op.Reply.IsErr() {
			return bad("served-after-close", "client %d (%s): %s was sent after termination of its emulator had returned, and was answered %s", op.Client, name, fmtArgs(strs(op.Item.Args)), clipS(op.Reply.String(), 80))
		}
	case op.Item.Tag == "refused" && w.emus[0] != nil && w.emus[0].closed:
		if !op.Lost {
			return bad("accepted-after-close", "client %d connected and got %s although the emulator had been terminated and no successor was started yet", op.Client, op.Reply.String())
		}
		c.counts["refused"]++
	case (op.Item.Tag == "fresh-dbsize" || op.Item.Tag == "fresh-zero") && c.onlyFreshActive(w):
		if op.Lost {
			return bad("successor-unreachable", "the successor on the same port did not serve client %d", op.Client)
		}
		if op.Reply.K != KInt || op.Reply.I != 0 {
			return bad("successor-not-empty", "the successor emulator (no persist path) answered %s to %s, expected 0", op.Reply.String(), fmtArgs(strs(op.Item.Args)))
		}
		c.counts["successor-empty"]++
	case op.Item.Tag == "fresh-list" && c.onlyFreshActive(w):
		if !op.Lost {
			n := 0
			for _, ln := range strings.Split(strings.TrimSpace(op.Reply.S), "\n") {
				if strings.Contains(ln, "laddr=:7000") {
					n++
				}
			}
			if n != 1 {
				return bad("successor-sees-old-clients", "CLIENT LIST on the successor shows %d connections on its port, only the asking one is connected:\n%s", n, op.Reply.S)
			}
		}
	}
	return nil
}

// onlyFreshActive: no other connection has talked to the successor yet, so it must look new.
func (c *lifeChecker) onlyFreshActive(w *World) bool {
	inst := w.emus[0]
	if inst == nil || inst.closed {
		return false
	}
	for _, cl := range w.clients {
		if cl.plan.Name != "fresh" && cl.plan.Emu == 0 && cl.connInst == inst {
			return false
		}
	}
	return true
}

func historyTail(w *World, n int) string {
	from := 0
	if len(w.history) > n {
		from = len(w.history) - n
	}
	var sb strings.Builder
	for _, op := range w.history[from:] {
		r := "(no reply)"
		if op.Lost {
			r = "(connection closed)"
		} else if op.Return >= 0 {
			r = clipS(op.Reply.String(), 60)
		}
		fmt.Fprintf(&sb, "  c%d %s [%d,%d] %s -> %s\n", op.Client, w.plan.Clients[op.Client].Name, op.Invoke, op.Return, clipS(argSummary(op.Item), 70), r)
	}
	return sb.String()
}

func (c *lifeChecker) Final(w *World) *Violation {
	bad := func(fp, format string, a ...any) *Violation {
		return &Violation{Oracle: "lifecycle", Step: w.step, Fp: "life:" + fp, Msg: fmt.Sprintf(format, a...) + "\n" + historyTail(w, 30)}
	}
	for _, cl := range w.clients {
		if cl.conn == nil || cl.cliClosed || cl.connInst == nil || !cl.connInst.closed {
			continue
		}
		if _, srvClosed, _, _, _ := cl.conn.state(); !srvClosed {
			return bad("connection-left-open", "client %d (%s): its connection was made before the termination of its emulator returned and is still open on the server side at the end of the run (neither served nor closed)", cl.idx, cl.plan.Name)
		}
	}
	if w.lateCmd != "" {
		return bad("command-runs-after-termination", "a command of a connected client was still executing after RequestTermination + WaitForTermination (or Close) had returned: %s", w.lateCmd)
	}
	// every lifecycle call must have returned
	for _, cl := range w.clients {
		if cl.plan.Name == "admin" && (cl.busy || cl.pos < len(cl.plan.Items)) {
			it := cl.plan.Items[min(cl.pos, len(cl.plan.Items)-1)]
			if strings.HasPrefix(it.Op, "emu-") {
				if os.Getenv("VS_STACKS") != "" {
					buf := make([]byte, 1<<20)
					fmt.Println(string(buf[:runtime.Stack(buf, true)]))
				}
				return bad("lifecycle-call-hangs:"+it.Op, "%s on instance %d did not return (run end: %s); clients: %s\n  goroutines of the emulator:\n%s", it.Op, it.N, w.stats.EndReason, clientStates(w), w.sched.describe())
			}
		}
		if cl.plan.Name == "bystander" && len(cl.pending) > 0 {
			return bad("bystander-starved", "a command of the second instance's client %d was never answered", cl.idx)
		}
	}
	if w.net.bindFailed > 0 {
		return bad("port-not-released", "binding the port again failed %d time(s) after termination", w.net.bindFailed)
	}
	c.counts["terminations"] = w.stats.Faults["emu-close"] + w.stats.Faults["emu-wait"]
	return nil
}

func clientStates(w *World) string {
	var parts []string
	for _, cl := range w.clients {
		if strings.HasPrefix(cl.plan.Name, "victim") {
			parts = append(parts, fmt.Sprintf("c%d=%s(pending %d)", cl.idx, cl.plan.Name, len(cl.pending)))
		}
	}
	return strings.Join(parts, " ")
}
