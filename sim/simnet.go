package sim

// In-memory transport owned by the simulator. Methods of Listener and of the
// server half of a Conn are called from emulator goroutines: they are
// //go:norace, bracket synchronisation with raceOff/raceOn and avoid append /
// maps / fmt on shared memory (see sched.go).

import (
	"errors"
	"io"
	"net"
	"sync"
	"time"
)

// noraceCopy copies byte by byte: the builtin copy goes through
// runtime.slicecopy, whose race hooks fire even from //go:norace callers.
//
//go:norace
func noraceCopy(dst, src []byte) int {
	n := len(src)
	if len(dst) < n {
		n = len(dst)
	}
	for i := 0; i < n; i++ {
		dst[i] = src[i]
	}
	return n
}

type simAddr string

func (a simAddr) Network() string { return "tcp" }
func (a simAddr) String() string  { return string(a) }

var errAddrInUse = errors.New("bind: address already in use")
var errConnReset = errors.New("read: connection reset by peer")
var errClosed = errors.New("use of closed network connection")

type chunk struct {
	data []byte
	step int64
}

// Conn is one simulated TCP connection. The emulator holds it as a net.Conn
// (server half); the simulator drives the client half through the cli* methods.
type Conn struct {
	mu sync.Mutex
	id int

	local, remote simAddr

	// client -> server
	in       []byte
	inHead   int
	inSig    chan struct{}
	readCap  int  // max bytes the next Read may return (0 = no cap)
	cliEOF   bool // client closed its write side
	cliReset bool // client vanished: Read returns an error

	// server -> client
	out          []chunk
	nout         int
	outBytes     int // bytes written and not yet taken by the client
	outLimit     int // 0 = unbounded; else Write blocks while outBytes >= outLimit
	outSig       chan struct{}
	srvClosed    bool
	srvCloseStep int64
	readsDone    int
	shortReads   int
	splitWrites  int // writes taken in two parts

	stepPtr *int64

	// schedule point of the simulator (nil: none). Socket I/O is a point at
	// which a real goroutine is descheduled; Write parks here before the data
	// is taken, and a large write is taken in two parts with a park in between
	// (a kernel takes what fits into its buffer and blocks for the rest: the
	// caller's buffer has to stay intact until Write returns).
	yield func(site string)
}

func newConn(id int, local, remote string, stepPtr *int64) *Conn {
	return &Conn{
		id:      id,
		local:   simAddr(local),
		remote:  simAddr(remote),
		inSig:   make(chan struct{}, 1),
		outSig:  make(chan struct{}, 1),
		out:     make([]chunk, 64),
		stepPtr: stepPtr,
	}
}

// ---- server half (task side) ----

//go:norace
func (c *Conn) Read(p []byte) (int, error) {
	raceOff()
	defer raceOn()
	for {
		c.mu.Lock()
		if c.srvClosed {
			c.mu.Unlock()
			return 0, errClosed
		}
		avail := len(c.in) - c.inHead
		if avail > 0 {
			n := avail
			if n > len(p) {
				n = len(p)
			}
			if c.readCap > 0 && n > c.readCap {
				n = c.readCap
				c.shortReads++
			}
			noraceCopy(p[:n], c.in[c.inHead:c.inHead+n])
			c.inHead += n
			c.readsDone++
			c.mu.Unlock()
			return n, nil
		}
		if c.cliReset {
			c.mu.Unlock()
			return 0, errConnReset
		}
		if c.cliEOF {
			c.mu.Unlock()
			return 0, io.EOF
		}
		c.mu.Unlock()
		<-c.inSig
	}
}

//go:norace
func (c *Conn) Write(p []byte) (int, error) {
	raceOff()
	defer raceOn()
	if c.yield != nil {
		c.yield("net.write")
		if len(p) > 256 {
			half := len(p) / 2
			n, err := c.writePart(p[:half])
			if err != nil {
				return n, err
			}
			c.mu.Lock()
			c.splitWrites++
			c.mu.Unlock()
			c.yield("net.write-rest")
			m, err := c.writePart(p[half:])
			return n + m, err
		}
	}
	return c.writePart(p)
}

//go:norace
func (c *Conn) writePart(p []byte) (int, error) {
	for {
		c.mu.Lock()
		if c.srvClosed {
			c.mu.Unlock()
			return 0, errClosed
		}
		if c.cliReset {
			c.mu.Unlock()
			return 0, errors.New("write: broken pipe")
		}
		if c.outLimit > 0 && c.outBytes >= c.outLimit {
			c.mu.Unlock()
			<-c.outSig
			continue
		}
		b := make([]byte, len(p))
		noraceCopy(b, p)
		if c.nout == len(c.out) {
			no := make([]chunk, 2*len(c.out))
			for i := range c.out {
				no[i] = c.out[i]
			}
			c.out = no
		}
		c.out[c.nout] = chunk{data: b, step: *c.stepPtr}
		c.nout++
		c.outBytes += len(p)
		c.mu.Unlock()
		return len(p), nil
	}
}

//go:norace
func (c *Conn) Close() error {
	raceOff()
	defer raceOn()
	c.mu.Lock()
	if !c.srvClosed {
		c.srvClosed = true
		c.srvCloseStep = *c.stepPtr
	}
	c.mu.Unlock()
	// wake a blocked Read / Write of the server half
	select {
	case c.inSig <- struct{}{}:
	default:
	}
	select {
	case c.outSig <- struct{}{}:
	default:
	}
	return nil
}

//go:norace
func (c *Conn) LocalAddr() net.Addr { return c.local }

//go:norace
func (c *Conn) RemoteAddr() net.Addr { return c.remote }

func (c *Conn) SetDeadline(t time.Time) error      { return nil }
func (c *Conn) SetReadDeadline(t time.Time) error  { return nil }
func (c *Conn) SetWriteDeadline(t time.Time) error { return nil }

// ---- client half (scheduler side) ----

//go:norace
func (c *Conn) cliDeliver(b []byte, readCap int) {
	raceOff()
	c.mu.Lock()
	// manual growth: no append on memory the server half reads
	need := len(c.in) - c.inHead + len(b)
	nb := make([]byte, need)
	noraceCopy(nb, c.in[c.inHead:])
	noraceCopy(nb[len(c.in)-c.inHead:], b)
	c.in = nb
	c.inHead = 0
	c.readCap = readCap
	c.mu.Unlock()
	select {
	case c.inSig <- struct{}{}:
	default:
	}
	raceOn()
}

//go:norace
func (c *Conn) cliClose(reset bool) {
	raceOff()
	c.mu.Lock()
	if reset {
		c.cliReset = true
	} else {
		c.cliEOF = true
	}
	c.mu.Unlock()
	select {
	case c.inSig <- struct{}{}:
	default:
	}
	select {
	case c.outSig <- struct{}{}:
	default:
	}
	raceOn()
}

//go:norace
func (c *Conn) splitCount() int {
	raceOff()
	c.mu.Lock()
	n := c.splitWrites
	c.mu.Unlock()
	raceOn()
	return n
}

// cliTake removes and returns everything the server has written so far.
//
//go:norace
func (c *Conn) cliTake(dst []chunk) []chunk {
	raceOff()
	c.mu.Lock()
	if c.outLimit > 0 {
		// the client has stopped reading: what the server writes stays in the
		// (bounded) queue, and its next Write blocks once the bound is reached
		c.mu.Unlock()
		raceOn()
		return dst
	}
	for i := 0; i < c.nout; i++ {
		dst = append(dst, c.out[i])
		c.out[i] = chunk{}
	}
	c.nout = 0
	c.outBytes = 0
	c.mu.Unlock()
	select {
	case c.outSig <- struct{}{}:
	default:
	}
	raceOn()
	return dst
}

//go:norace
func (c *Conn) state() (pendingIn int, srvClosed bool, closeStep int64, reads int, short int) {
	raceOff()
	c.mu.Lock()
	pendingIn = len(c.in) - c.inHead
	srvClosed = c.srvClosed
	closeStep = c.srvCloseStep
	reads = c.readsDone
	short = c.shortReads
	c.mu.Unlock()
	raceOn()
	return
}

//go:norace
func (c *Conn) setOutLimit(n int) {
	raceOff()
	c.mu.Lock()
	c.outLimit = n
	c.mu.Unlock()
	raceOn()
}

// ---- listener and port table ----

type Listener struct {
	addr   simAddr
	ch     chan *Conn
	closed chan struct{}
	once   sync.Once
	net    *Net
	slot   int
}

//go:norace
func (l *Listener) Accept() (net.Conn, error) {
	raceOff()
	defer raceOn()
	select {
	case <-l.closed:
		return nil, net.ErrClosed
	default:
	}
	select {
	case c := <-l.ch:
		return c, nil
	case <-l.closed:
		return nil, net.ErrClosed
	}
}

//go:norace
func (l *Listener) Close() error {
	raceOff()
	defer raceOn()
	l.once.Do(func() {
		close(l.closed)
		l.net.mu.Lock()
		if l.net.ports[l.slot] == l {
			l.net.ports[l.slot] = nil
		}
		l.net.mu.Unlock()
		// connections still in the backlog are reset, as a kernel does
		for {
			select {
			case c := <-l.ch:
				raceOn()
				c.Close()
				raceOff()
				continue
			default:
			}
			break
		}
	})
	return nil
}

//go:norace
func (l *Listener) Addr() net.Addr { return l.addr }

//go:norace
func (l *Listener) isClosed() bool {
	raceOff()
	defer raceOn()
	select {
	case <-l.closed:
		return true
	default:
		return false
	}
}

type Net struct {
	mu         sync.Mutex
	ports      [16]*Listener
	bindFailed int
}

// Listen is installed as the emulator's listener seam.
//
//go:norace
func (n *Net) Listen(network, addr string) (net.Listener, error) {
	raceOff()
	defer raceOn()
	n.mu.Lock()
	defer n.mu.Unlock()
	free := -1
	for i, l := range n.ports {
		if l != nil && string(l.addr) == addr {
			n.bindFailed++
			return nil, errAddrInUse
		}
		if l == nil && free < 0 {
			free = i
		}
	}
	if free < 0 {
		return nil, errors.New("sim: port table full")
	}
	l := &Listener{addr: simAddr(addr), ch: make(chan *Conn, 64), closed: make(chan struct{}), net: n, slot: free}
	n.ports[free] = l
	return l, nil
}

// lookup returns the open listener bound to addr, or nil.
//
//go:norace
func (n *Net) lookup(addr string) *Listener {
	raceOff()
	defer raceOn()
	n.mu.Lock()
	defer n.mu.Unlock()
	for _, l := range n.ports {
		if l != nil && string(l.addr) == addr {
			return l
		}
	}
	return nil
}

// dial hands a new connection to the listener on addr; false = refused.
//
//go:norace
func (n *Net) dial(addr string, c *Conn) bool {
	l := n.lookup(addr)
	if l == nil {
		return false
	}
	raceOff()
	defer raceOn()
	select {
	case l.ch <- c:
		return true
	default:
		return false
	}
}

// noraceAppend appends src (memory written by an emulator goroutine inside
// Conn.Write) to dst without going through runtime helpers that carry race hooks.
//
//go:norace
func noraceAppend(dst, src []byte) []byte {
	if cap(dst)-len(dst) < len(src) {
		nd := make([]byte, len(dst), 2*cap(dst)+len(src))
		noraceCopy(nd, dst)
		dst = nd
	}
	n := len(dst)
	dst = dst[:n+len(src)]
	noraceCopy(dst[n:], src)
	return dst
}
