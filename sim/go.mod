module verifsim

go 1.26

require (
	github.com/anishathalye/porcupine v1.3.0
	github.com/jimsnab/go-lane v1.30.0
	github.com/jimsnab/go-redisemu v0.0.0
)

require github.com/google/uuid v1.6.0 // indirect

replace github.com/jimsnab/go-redisemu => /repo

godebug randseednop=0
