package sim

import (
	"fmt"
	"strconv"
	"strings"
)

// C13: no client input can crash the process, stall other clients, or go unanswered.

var allCommands = []string{
	"APPEND", "BITCOUNT", "BITFIELD", "BITFIELD_RO", "BITOP", "BITPOS", "BLMOVE", "BLMPOP", "BLPOP", "BRPOP", "BRPOPLPUSH",
	"CLIENT GETNAME", "CLIENT ID", "CLIENT INFO", "CLIENT LIST", "CLIENT KILL", "CLIENT NO-EVICT", "CLIENT SETINFO", "CLIENT SETNAME", "CLIENT UNBLOCK",
	"COMMAND COUNT", "COMMAND DOCS", "COMMAND GETKEYS", "COMMAND GETKEYSANDFLAGS", "COMMAND HELP", "COMMAND INFO", "COMMAND LIST",
	"COPY", "DBSIZE", "DECR", "DECRBY", "DEL", "DISCARD", "DUMP", "ECHO", "EXEC", "EXISTS", "EXPIRE", "EXPIREAT", "EXPIRETIME", "FLUSHALL", "FLUSHDB",
	"GET", "GETBIT", "GETDEL", "GETEX", "GETRANGE", "GETSET", "INCR", "INCRBY", "INCRBYFLOAT", "INFO", "HDEL", "HEXISTS", "HELLO", "HGET", "HGETALL",
	"HINCRBY", "HINCRBYFLOAT", "HKEYS", "HLEN", "HMGET", "HMSET", "HRANDFIELD", "HSCAN", "HSET", "HSETNX", "HSTRLEN", "HVALS", "LCS", "LINDEX", "LINSERT",
	"LLEN", "LMOVE", "LMPOP", "LPUSH", "LPUSHX", "LPOP", "LPOS", "LRANGE", "LREM", "LSET", "LTRIM", "MGET", "MSET", "MSETNX", "MULTI", "KEYS", "PEXPIRE",
	"PEXPIREAT", "PEXPIRETIME", "PERSIST", "PSETEX", "PING", "PTTL", "RANDOMKEY", "RENAME", "RENAMENX", "RESTORE", "RPUSH", "RPUSHX", "RPOP", "RPOPLPUSH",
	"SADD", "SCARD", "SCAN", "SDIFF", "SDIFFSTORE", "SELECT", "SET", "SETBIT", "SETEX", "SETNX", "SETRANGE", "SINTER", "SINTERCARD", "SINTERSTORE",
	"SISMEMBER", "SMEMBERS", "SMISMEMBER", "SMOVE", "SORT", "SRANDMEMBER", "SREM", "STRLEN", "SUBSTR", "SSCAN", "SUNION", "SUNIONSTORE", "TOUCH", "TTL",
	"TYPE", "UNLINK", "UNWATCH", "WATCH",
}

var hostileArgs = []string{
	"0", "1", "-1", "2", "-2", "7", "8", "9", "2147483647", "2147483648", "-2147483648", "-2147483649", "4294967295", "4294967296", "4294967297",
	"9223372036854775807", "-9223372036854775808", "9223372036854775806", "-9223372036854775807", "18446744073709551615", "99999999999999999999",
	"nan", "NaN", "inf", "-inf", "+inf", "1e400", "-1e400", "1e-400", "0.0", "-0", "1.5", "0x10", "1e3",
	"", " ", "a", "k", "hs", "ls", "ss", "st", "LEFT", "RIGHT", "BEFORE", "COUNT", "MATCH", "LIMIT", "WITHVALUES", "GET", "SET", "INCRBY", "OVERFLOW", "u8", "i64", "u64", "i65", "u0", "#1", "NX", "XX", "EX", "ID", "TYPE", "*", "[", "\\", "a[", "\x00",
	"AND", "OR", "XOR", "NOT", "BIT", "BYTE", "ASC", "ALPHA", "STORE", "BY", "REPLACE", "ABSTTL", "IDLETIME", "FREQ", "TIMEOUT", "ERROR", "3", "100", "1000",
}

// keys of each type prepared by the setup so that every command meets every key type
var typedKeys = []string{"st", "ls", "hs", "ss", "missing", "num", "empty"}

func (g *Gen) hostileCmd() []string {
	name := strings.Fields(allCommands[g.r.IntN(len(allCommands))])
	a := append([]string{}, name...)
	n := g.r.IntN(7)
	for i := 0; i < n; i++ {
		switch g.r.IntN(5) {
		case 0, 1:
			a = append(a, typedKeys[g.r.IntN(len(typedKeys))])
		default:
			a = append(a, hostileArgs[g.r.IntN(len(hostileArgs))])
		}
	}
	return a
}

// targeted: shapes known to be dangerous for implementations of this kind
func (g *Gen) targetedHostile() []string {
	k := typedKeys[g.r.IntN(len(typedKeys))]
	shape := g.r.IntN(26)
	if g.chance(2) {
		// mostly a key of the type the command works on: the dangerous paths lie
		// behind the type check
		switch shape {
		case 0, 1, 2, 6, 7, 8, 9, 10, 11, 12:
			k = g.pick("st", "num", "empty")
		case 3, 4, 13, 14, 15, 16:
			k = "ls"
		case 22:
			k = g.pick("ls", "ss")
		case 5:
			k = g.pick("hs", "ss")
		}
	}
	big := g.pick("9223372036854775807", "-9223372036854775808", "4611686018427387904", "-4611686018427387904", "4294967296", "-1")
	// pairs of numbers: extremes and small values in every combination (an
	// overflow often needs a small offset next to a huge count, or the reverse)
	mix := func() string {
		if g.chance(2) {
			return g.pick("0", "1", "2", "3", "-1", "-2")
		}
		return g.pick("9223372036854775807", "9223372036854775806", "-9223372036854775808", "-9223372036854775807", "4611686018427387904", "4294967296", "2147483648")
	}
	switch shape {
	case 0:
		return []string{"SETRANGE", k, big, "x"}
	case 1:
		return []string{"SETBIT", k, big, "1"}
	case 2:
		return []string{"GETBIT", k, big}
	case 3:
		return []string{g.pick("LPOP", "RPOP"), k, big}
	case 4:
		return []string{"LMPOP", "1", k, "LEFT", "COUNT", big}
	case 5:
		// a count is a size: nothing may be allocated from it before it is bounded
		cmd := g.pick("HRANDFIELD", "SRANDMEMBER", "SPOP")
		if k == "hs" {
			cmd = "HRANDFIELD"
		} else if k == "ss" {
			cmd = g.pick("SRANDMEMBER", "SPOP")
		}
		a := []string{cmd, k, g.pick("-9223372036854775808", "-1", "0", "9223372036854775807", "4611686018427387904", "2147483648", "-2147483649")}
		if cmd == "HRANDFIELD" && g.chance(2) {
			a = append(a, "WITHVALUES")
		}
		return a
	case 6:
		return []string{"BITCOUNT", k, mix(), mix()}
	case 7:
		return []string{"BITCOUNT", k, g.pick("0", "5", "-1"), g.pick("10", "-1", "0"), g.pick("BIT", "BYTE")}
	case 8:
		return []string{"BITPOS", k, g.pick("0", "1", "2"), mix(), mix()}
	case 9:
		return []string{"BITFIELD", k, "GET", g.pick("u64", "i65", "u0", "i0", "x8", "u8"), big}
	case 10:
		return []string{"BITFIELD", k, "SET", "u8", big, "1"}
	case 11:
		return []string{"BITFIELD", k, "OVERFLOW", g.pick("WRAP", "SAT", "FAIL", "NOPE"), "INCRBY", "i8", g.pick("0", "#1", big), big}
	case 12:
		return []string{"GETRANGE", k, mix(), mix()}
	case 13:
		return []string{"LRANGE", k, mix(), mix()}
	case 14:
		return []string{"LTRIM", k, mix(), mix()}
	case 15:
		return []string{"LINDEX", k, big}
	case 16:
		return []string{"LSET", k, big, "x"}
	case 17:
		return []string{"COMMAND", g.pick("GETKEYS", "GETKEYSANDFLAGS"), g.pick("LMPOP", "SINTERCARD", "BLMPOP", "SORT", "EVAL", "MSET", "GET", "ZADD"), g.pick("5", "0", "-1", "2", big), "a", g.pick("b", "LEFT"), g.pick("LEFT", "c")}
	case 18:
		return []string{"COMMAND", g.pick("GETKEYS", "GETKEYSANDFLAGS", "INFO", "DOCS", "LIST")}
	case 19:
		return []string{"RESTORE", "r" + strconv.Itoa(g.r.IntN(3)), g.pick("0", "0", "0", "-1", big), g.restorePayload(), g.pick("REPLACE", "REPLACE", "ABSTTL")}[:4+g.r.IntN(2)]
	case 20:
		// patterns that end in the middle of a construct (class, range, escape)
		// behind a prefix that some name matches
		pat := g.pick("*", "[", "\\", "s[a-", "n[a-", "h[", "l[^", "e[a", "[a-", "s\\", "s[\\", "*[", "?[a-", "s[a-z", "s[]", "s[^]")
		switch g.r.IntN(4) {
		case 0:
			return []string{"KEYS", pat}
		case 1:
			return []string{"COMMAND", "LIST", "FILTERBY", "PATTERN", g.pick("g[a-", "s[", "h[^", "*[a-", pat)}
		case 2:
			return []string{g.pick("HSCAN", "SSCAN"), g.pick("hs", "ss"), "0", "MATCH", g.pick("f[a-", "m[", "g[^", "m[0-", pat)}
		}
		return []string{"SCAN", g.pick("0", big, "-1", "x"), "COUNT", g.pick("0", "-1", big, "10"), "MATCH", pat}
	case 21:
		return []string{g.pick("HSCAN", "SSCAN"), k, g.pick("0", big, "-1"), "COUNT", g.pick("0", big, "1")}
	case 22:
		a := []string{g.pick("SORT", "SORT", "SORT_RO"), k, "LIMIT", mix(), mix()}
		if g.chance(2) {
			a = append(a, g.pick("ALPHA", "DESC", "ASC"))
		}
		return a
	case 24, 25:
		// line breaks in every argument an error message may quote back: the reply
		// must stay one reply
		n1, n2 := g.pick("a\r\nb", "x\r\n+OK", "\r\n", "\n", "q\rz", "nobody\r\n:1", "\r\n$-1\r\n"), g.pick("y\r\n:2", "z", "\r\n-ERR w")
		shapes := [][]string{
			{"CLIENT", n1}, {"CLIENT", n1, n2}, {"COMMAND", n1}, {"COMMAND", n1, n2}, {n1}, {n1, n2},
			{"CLIENT", "KILL", "USER", n1}, {"CLIENT", "KILL", "TYPE", n1}, {"CLIENT", "KILL", n1, n2}, {"CLIENT", "KILL", "ID", n1},
			{"CLIENT", "SETNAME", n1}, {"CLIENT", "NO-EVICT", n1}, {"CLIENT", "UNBLOCK", n1}, {"CLIENT", "UNBLOCK", "1", n1}, {"CLIENT", "REPLY", n1},
			{"COMMAND", "INFO", n1}, {"COMMAND", "DOCS", n1}, {"COMMAND", "LIST", "FILTERBY", n1, n2}, {"COMMAND", "GETKEYS", n1, n2},
			{"HELLO", n1}, {"HELLO", "3", "AUTH", n1, n2}, {"HELLO", "3", "SETNAME", n1}, {"SELECT", n1}, {"SET", k, "v", n1}, {"SET", k, "v", "EX", n1}, {"EXPIRE", k, n1},
			{"INCRBY", k, n1}, {"LRANGE", k, n1, "1"}, {"OBJECT", n1, k}, {"CONFIG", n1, n2}, {"INFO", n1}, {"FLUSHALL", n1}, {"FLUSHDB", n1},
			{"HINCRBY", k, "f", n1}, {"LINSERT", k, n1, "a", "b"}, {"LMOVE", k, k, n1, n2}, {"SETRANGE", k, n1, "x"}, {"BITOP", n1, k, k}, {"BITFIELD", k, n1, n2},
		}
		return shapes[g.r.IntN(len(shapes))]
	default:
		return []string{"CLIENT", "KILL", g.pick("ID", "ADDR", "LADDR", "USER", "TYPE", "SKIPME", "MAXAGE"), g.pick(big, "x", "normal", "pubsub", "nosuchuser", "yes")}
	}
}

// restorePayload: DUMP-like payloads with a valid trailer but arbitrary type and length bytes
func (g *Gen) restorePayload() string {
	// version byte, type byte, 4-byte length, content, 8-byte trailer. An attacker
	// who has seen DUMP output (or the source) can produce a matching trailer, so
	// most payloads carry one: rotate-left-10/xor over everything before it.
	// type byte: single type flags, combinations of them, none, unknown bits
	body := []byte{1, byte([]int{1, 2, 4, 8, 0, 3, 5, 9, 6, 12, 7, 15, 255, 16, 17}[g.r.IntN(15)])}
	ln := []uint32{0, 1, 2, 5, 6, 100, 0x7fffffff, 0xffffffff, 0x80000000}[g.r.IntN(9)]
	body = append(body, byte(ln>>24), byte(ln>>16), byte(ln>>8), byte(ln))
	for i := 0; i < g.r.IntN(8); i++ {
		body = append(body, byte('a'+g.r.IntN(26)))
	}
	if g.chance(5) {
		return string(body) + "12345678"
	}
	var sum uint64
	for _, b := range body {
		sum = sum<<10 | sum>>54
		sum ^= uint64(b)
	}
	for i := 7; i >= 0; i-- {
		body = append(body, byte(sum>>(8*uint(i))))
	}
	return string(body)
}

var garbageFrames = []string{
	"\r\n", "\r\n\r\n", "\n", "\r", " \r\n", "PING\r\n", "GET k\r\n", "*\r\n", "*x\r\n", "*1\r\n\r\n", "*1\r\n$\r\n", "*1\r\n$x\r\nPING\r\n",
	"*-1\r\n", "*0\r\n", "*-5\r\n", "*1\r\n$-1\r\n", "*1\r\n$-5\r\n", "*2\r\n$4\r\nPING\r\n$-1\r\n",
	"*1\r\n:1\r\n", "*1\r\n+PING\r\n", "*1\r\n-ERR\r\n", "*1\r\n_\r\n", "*1\r\n#t\r\n", "*1\r\n,1.5\r\n", "*1\r\n(123\r\n", "*1\r\n=8\r\ntxt:PING\r\n", "*1\r\n!4\r\nPING\r\n",
	"*1\r\n*1\r\n$4\r\nPING\r\n", "*2\r\n$3\r\nGET\r\n*1\r\n$1\r\nk\r\n", "*2\r\n$3\r\nGET\r\n%1\r\n$1\r\na\r\n$1\r\nb\r\n", "*2\r\n$3\r\nGET\r\n~1\r\n$1\r\na\r\n",
	"%1\r\n$1\r\na\r\n$1\r\nb\r\n", "~1\r\n$1\r\na\r\n", ">1\r\n$1\r\na\r\n", "|1\r\n$1\r\na\r\n$1\r\nb\r\n*1\r\n$4\r\nPING\r\n",
	"%1\r\n*1\r\n$1\r\na\r\n$1\r\nb\r\n", "%1\r\n%1\r\n$1\r\na\r\n$1\r\nb\r\n$1\r\nc\r\n", "~1\r\n*1\r\n$1\r\na\r\n", "~2\r\n~1\r\n$1\r\na\r\n%0\r\n",
	"$4\r\nPING\r\n", ":1\r\n", "+OK\r\n", "-ERR\r\n", "_\r\n", "#t\r\n", ",nan\r\n", "(1\r\n",
	"*?\r\n$4\r\nPING\r\n.\r\n", "$?\r\n;4\r\nPING\r\n;0\r\n", "%?\r\n.\r\n", "~?\r\n.\r\n",
	"*9223372036854775807\r\n", "*-9223372036854775808\r\n", "*281474976710656\r\n", "*1\r\n$9223372036854775807\r\nx\r\n", "*1\r\n$-9223372036854775808\r\n", "*1\r\n$281474976710656\r\nx\r\n",
	"%9223372036854775807\r\n", "~9223372036854775807\r\n", ">9223372036854775807\r\n", "|9223372036854775807\r\n", "!9223372036854775807\r\nx\r\n", "=9223372036854775807\r\nx\r\n", "%-5\r\n", "~-5\r\n", "!-5\r\n", "=-5\r\n", "=2\r\nab\r\n", "=3\r\nabc\r\n",
	"*1\r\n$4\r\nPI", "*2\r\n$3\r\nGET\r\n$100\r\nshort\r\n", "*3\r\n$3\r\nSET\r\n$1\r\nk\r\n", "\x00\x01\x02\xff\r\n", "*1\r\n$4\r\nPINGXX",
}

func genHostilePlan(seed uint64, thorough bool) *Plan {
	g := newGen(seed, 9)
	p := &Plan{Prop: "C13", Seed: seed, Knobs: Knobs{RandSeed: int64(seed), MaxSteps: 150000, IdleCap: 500}}
	p.Knobs.Sticky = []int{0, 40, 80}[g.r.IntN(3)]
	p.Knobs.Frag = g.chance(3)
	// setup: typed keys in db 0
	setup := []Item{cmdItem("SET", "st", "hello"), cmdItem("RPUSH", "ls", "a", "b", "c"), cmdItem("HSET", "hs", "f", "1", "g", "x"), cmdItem("SADD", "ss", "m1", "m2"), cmdItem("SET", "num", "10"), cmdItem("SET", "empty", ""), {Op: "barrier", N: 1}}
	p.Clients = append(p.Clients, Client{Name: "setup", Items: setup})
	// victims on their own key prefix
	nv := 1 + g.r.IntN(2)
	for v := 0; v < nv; v++ {
		g.client = v
		pre := "v" + strconv.Itoa(v) + ":"
		g.keys = []string{pre + "k0", pre + "k1", pre + "k2"}
		items := []Item{{Op: "barrier", N: 1}}
		for i := 0; i < 6+g.r.IntN(14); i++ {
			var a []string
			switch g.r.IntN(4) {
			case 0:
				a = g.stringCmd(simEpochNs)
			case 1:
				a = g.listCmd()
			case 2:
				a = g.hashCmd()
			default:
				a = g.setCmd()
			}
			if isBlockingCmd(a[0]) {
				a = []string{"LLEN", g.key()}
			}
			items = append(items, Item{Args: bs(a...)})
		}
		items = append(items, cmdItem("PING"))
		p.Clients = append(p.Clients, Client{Name: "victim", Items: items})
	}
	// attackers
	na := 1 + g.r.IntN(2)
	for a := 0; a < na; a++ {
		items := []Item{{Op: "barrier", N: 1}}
		if g.chance(2) {
			// well-formed commands with hostile arguments: exactly one reply each
			for i := 0; i < 5+g.r.IntN(25); i++ {
				var c []string
				if g.chance(2) {
					c = g.targetedHostile()
				} else {
					c = g.hostileCmd()
				}
				if g.chance(12) {
					// crafted DUMP payloads more often: they are the one input that
					// puts attacker-chosen bytes straight into the store
					c = []string{"RESTORE", "r" + strconv.Itoa(g.r.IntN(3)), "0", g.restorePayload(), "REPLACE"}
				}
				if isBlockingCmd(c[0]) || strings.EqualFold(c[0], "QUIT") {
					continue // blocking commands may legitimately not answer
				}
				if strings.EqualFold(c[0], "CLIENT") && len(c) > 1 && (strings.EqualFold(c[1], "KILL")) {
					// may kill victims legitimately: restrict to filters that match nobody else
					c = []string{"CLIENT", "KILL", "ID", g.pick("0", "-1", "99999", "x", "9223372036854775807")}
				}
				if strings.EqualFold(c[0], "FLUSHALL") || strings.EqualFold(c[0], "FLUSHDB") || strings.EqualFold(c[0], "SELECT") || strings.EqualFold(c[0], "MULTI") || strings.EqualFold(c[0], "HELLO") {
					continue // would change what the victims legitimately see / the attacker's own reply framing
				}
				if touchesVictims(c) {
					continue
				}
				if n := strings.ToUpper(c[0]); n == "HRANDFIELD" || n == "SRANDMEMBER" {
					// a large negative count legitimately asks for that many elements
					// (real Redis would produce them too): host-dependent, not generated
					for i := 2; i < len(c); i++ {
						if v, err := strconv.ParseInt(c[i], 10, 64); err == nil && v < -1000 && v != -9223372036854775808 {
							c[i] = "-7"
						}
					}
				}
				items = append(items, Item{Args: bs(c...), Tag: "hostile"})
				if strings.EqualFold(c[0], "RESTORE") && len(c) > 1 {
					for _, probe := range [][]string{{"TYPE", c[1]}, {"GET", c[1]}, {"LRANGE", c[1], "0", "-1"}, {"HGETALL", c[1]}, {"SMEMBERS", c[1]}, {"LLEN", c[1]}, {"STRLEN", c[1]}, {"DUMP", c[1]}, {"COPY", c[1], "rcopy", "REPLACE"},
						{"HSET", c[1], "f", "v"}, {"HLEN", c[1]}, {"LPUSH", c[1], "x"}, {"SADD", c[1], "m"}, {"SCARD", c[1]}, {"APPEND", c[1], "z"}, {"SORT", c[1], "ALPHA"}, {"DEL", c[1]}} {
						if g.chance(2) {
							items = append(items, Item{Args: bs(probe...), Tag: "hostile"})
						}
					}
				}
				if g.chance(12) {
					// the legitimate round trip: DUMP a key of any type, RESTORE it elsewhere, use it
					k := typedKeys[g.r.IntN(len(typedKeys))]
					items = append(items, Item{Args: bs("DUMP", k), Tag: "hostile"}, Item{Args: bs("RESTORE", "rt", "0", "$prev", "REPLACE"), Tag: "hostile"},
						Item{Args: bs("TYPE", "rt"), Tag: "hostile"}, Item{Args: bs("LRANGE", "rt", "0", "-1"), Tag: "hostile"}, Item{Args: bs("HGETALL", "rt"), Tag: "hostile"}, Item{Args: bs("SMEMBERS", "rt"), Tag: "hostile"}, Item{Args: bs("GET", "rt"), Tag: "hostile"})
				}
			}
			items = append(items, Item{Args: bs("PING"), Tag: "alive"})
			p.Clients = append(p.Clients, Client{Name: "attacker-args", Items: items, Depth: 1 + g.r.IntN(4)})
		} else {
			// raw garbage: no reply is required, the connection may be closed on us
			for i := 0; i < 1+g.r.IntN(6); i++ {
				raw := garbageFrames[g.r.IntN(len(garbageFrames))]
				if g.chance(4) {
					// mutate a valid frame
					base := g.hostileCmd()
					for affectsOthers(base) {
						base = g.hostileCmd()
					}
					f := EncodeCmd(bs(base...))
					pos := g.r.IntN(len(f))
					switch g.r.IntN(4) {
					case 0:
						f[pos] = byte(g.r.IntN(256))
					case 1:
						f = f[:pos]
					case 2:
						f = append(f[:pos:pos], f[min(pos+1+g.r.IntN(3), len(f)):]...)
					default:
						f = append(append(append([]byte{}, f[:pos]...), []byte(g.pick("\r\n", "-1", "99999999999999999999", "\x00"))...), f[pos:]...)
					}
					raw = string(f)
				}
				items = append(items, Item{Raw: B(raw), NoReply: true, Tag: "garbage"})
			}
			if g.chance(2) {
				items = append(items, Item{Op: "close", Now: true})
			}
			p.Clients = append(p.Clients, Client{Name: "attacker-raw", Items: items})
		}
	}
	return p
}

// affectsOthers: commands whose legitimate effect reaches other connections.
func affectsOthers(c []string) bool {
	switch strings.ToUpper(c[0]) {
	case "FLUSHALL", "FLUSHDB", "CLIENT", "SELECT", "MULTI", "HELLO", "QUIT":
		return true
	}
	return isBlockingCmd(c[0]) || touchesVictims(c)
}

func touchesVictims(c []string) bool {
	for _, a := range c {
		if strings.HasPrefix(a, "v0:") || strings.HasPrefix(a, "v1:") || a == "*" {
			return true
		}
	}
	switch strings.ToUpper(c[0]) {
	case "KEYS", "SCAN", "RANDOMKEY", "DBSIZE", "RENAME", "RENAMENX", "COPY", "SORT", "DEL", "UNLINK", "RESTORE", "SINTERSTORE", "SUNIONSTORE", "SDIFFSTORE", "LMOVE", "RPOPLPUSH", "SMOVE", "BITOP", "MSET", "MSETNX", "EXEC", "DISCARD", "WATCH", "UNWATCH":
		return false
	}
	return false
}

// hostileChecker: victims refine their own model; well-formed commands get
// exactly one reply; nothing panics (engine) and nobody is starved.
type hostileChecker struct {
	frame    *frameChecker
	plan     *Plan
	reached  int
	answered int
}

func newHostileChecker(p *Plan) Checker {
	return &hostileChecker{plan: p, frame: newFrameChecker(p).(*frameChecker)}
}

func (c *hostileChecker) OnStep(w *World) *Violation { return nil }
func (c *hostileChecker) Extra() map[string]int {
	return map[string]int{"hostile-answered": c.answered, "garbage-sent": c.reached}
}

func (c *hostileChecker) OnReply(w *World, op *Op) *Violation {
	name := w.plan.Clients[op.Client].Name
	switch name {
	case "victim":
		if op.Lost {
			return &Violation{Oracle: "victim", Step: w.step, Fp: "victim:connection-lost",
				Msg: fmt.Sprintf("victim connection %d was closed by the server while an attacker was active (command #%d %s)", op.Client, op.Idx, argSummary(op.Item))}
		}
		return c.frame.OnReply(w, op)
	case "attacker-args":
		if op.Return >= 0 {
			c.answered++
		}
	}
	return nil
}

func (c *hostileChecker) Final(w *World) *Violation {
	if w.stats.EndReason == "step-budget" {
		return nil
	}
	for _, cl := range w.clients {
		name := cl.plan.Name
		for _, op := range w.history {
			if op.Client == cl.idx && op.Item.Tag == "garbage" {
				c.reached++
			}
		}
		if name == "attacker-raw" {
			continue
		}
		if len(cl.pending) > 0 {
			op := cl.pending[0]
			fp := "no-reply:" + name
			if name == "attacker-args" {
				fp += ":" + strings.ToLower(string(op.Item.Args[0]))
			}
			return &Violation{Oracle: "liveness", Step: w.step, Fp: fp,
				Msg: fmt.Sprintf("%s connection %d: the well-formed command #%d %s was delivered but never answered (run end: %s)", name, cl.idx, op.Idx, fmtArgs(strs(op.Item.Args)), w.stats.EndReason)}
		}
	}
	return nil
}
