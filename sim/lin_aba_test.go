package sim

import (
	"testing"
	"time"

	"github.com/anishathalye/porcupine"
)

// Regression test for the attribution of an illegal concurrent history to the
// open known finding KF-watch-aba-missing-key: the history below (found by a
// thorough sweep) is illegal for the strict model and legal for the tolerant
// one; the tolerant check used to be cut short because the state cache key did
// not contain the watch-on-missing-key flag.
func TestLinAbaAttribution(t *testing.T) {
	type h struct {
		c        int
		call, rt int64
		argv     []string
		out      Value
	}
	ok := Value{K: KSimple, S: "OK"}
	q := Value{K: KSimple, S: "QUEUED"}
	i := func(n int64) Value { return Value{K: KInt, I: n} }
	hist := []h{
		{1, 27, 36, []string{"MSET", "k1", "v1.1", "k1", "v1.2"}, ok},
		{3, 87, 104, []string{"MULTI"}, ok},
		{2, 109, 124, []string{"MULTI"}, ok},
		{2, 129, 134, []string{"RPUSH", "k1", "v2.3", "v2.4"}, q},
		{3, 139, 145, []string{"DBSIZE"}, q},
		{2, 144, 164, []string{"INCR", "k1"}, q},
		{3, 154, 159, []string{"DEL", "k0", "k1"}, q},
		{3, 174, 189, []string{"EXEC"}, Value{K: KArray, A: []Value{i(1), i(1)}}},
		{2, 199, 231, []string{"EXEC"}, Value{K: KArray, A: []Value{i(2), {K: KErr, S: "WRONGTYPE x"}}}},
		{3, 203, 212, []string{"WATCH", "k1"}, ok},
		{2, 236, 247, []string{"RENAMENX", "k1", "k0"}, i(1)},
		{3, 252, 258, []string{"MULTI"}, ok},
		{3, 263, 273, []string{"EXEC"}, Value{K: KArray, A: []Value{}}},
	}
	var ops []porcupine.Operation
	for _, x := range hist {
		ops = append(ops, porcupine.Operation{ClientId: x.c, Input: linInput{client: x.c, argv: x.argv}, Call: x.call, Output: x.out, Return: x.rt})
	}
	now := simEpochNs
	if r := porcupine.CheckOperationsTimeout(linModel(now, false), ops, 20*time.Second); r != porcupine.Illegal {
		t.Fatalf("strict model: %v, want Illegal", r)
	}
	if r := porcupine.CheckOperationsTimeout(linModel(now, true), ops, 20*time.Second); r != porcupine.Ok {
		t.Fatalf("tolerant model: %v, want Ok", r)
	}
}
