package sim

import (
	"math"
	"strconv"
	"strings"
)

const maxInt64 = math.MaxInt64
const minInt64 = math.MinInt64

func init() {
	// BITOP on string values (it is a multi-key read-modify-write command that
	// C08 names; the other bitmap commands are in model_bits.go)
	reg("bitop", -4, true, func(m *Model, s *Sess, a []string, _ bool) Expect {
		op := upper(a[1])
		dest, srcs := a[2], a[3:]
		if op != "AND" && op != "OR" && op != "XOR" && op != "NOT" {
			return eArgErr()
		}
		if op == "NOT" && len(srcs) != 1 {
			return eArgErr()
		}
		var vals [][]byte
		longest := 0
		for _, k := range srcs {
			o := m.get(s, k)
			if o == nil {
				vals = append(vals, nil)
				continue
			}
			if o.T != tString {
				return eWrongType()
			}
			vals = append(vals, []byte(o.S))
			if len(o.S) > longest {
				longest = len(o.S)
			}
		}
		if longest == 0 {
			// an empty result is not stored: the destination is removed
			m.del(s, dest)
			return eInt(0)
		}
		res := make([]byte, longest)
		at := func(v []byte, i int) byte {
			if i < len(v) {
				return v[i]
			}
			return 0
		}
		for i := 0; i < longest; i++ {
			switch op {
			case "NOT":
				res[i] = ^at(vals[0], i)
			default:
				b := at(vals[0], i)
				for _, v := range vals[1:] {
					switch op {
					case "AND":
						b &= at(v, i)
					case "OR":
						b |= at(v, i)
					case "XOR":
						b ^= at(v, i)
					}
				}
				res[i] = b
			}
		}
		m.set(s, dest, &mObj{T: tString, S: string(res)})
		return eInt(int64(longest))
	})

	reg("set", -3, true, mSet)
	reg("setnx", 3, true, func(m *Model, s *Sess, a []string, _ bool) Expect {
		if m.get(s, a[1]) != nil {
			return eInt(0)
		}
		m.set(s, a[1], &mObj{T: tString, S: a[2]})
		return eInt(1)
	})
	reg("setex", 4, true, func(m *Model, s *Sess, a []string, _ bool) Expect { return mSetEx(m, s, a, int64(1e9)) })
	reg("psetex", 4, true, func(m *Model, s *Sess, a []string, _ bool) Expect { return mSetEx(m, s, a, int64(1e6)) })
	reg("get", 2, false, func(m *Model, s *Sess, a []string, _ bool) Expect {
		o := m.get(s, a[1])
		if o == nil {
			return eNil()
		}
		if o.T != tString {
			return eWrongType()
		}
		return strReply(o)
	})
	reg("getset", 3, true, func(m *Model, s *Sess, a []string, _ bool) Expect {
		o := m.get(s, a[1])
		if o != nil && o.T != tString {
			return eWrongType()
		}
		r := eNil()
		if o != nil {
			r = strReply(o)
		}
		m.set(s, a[1], &mObj{T: tString, S: a[2]})
		return r
	})
	reg("getdel", 2, true, func(m *Model, s *Sess, a []string, _ bool) Expect {
		o := m.get(s, a[1])
		if o == nil {
			return eNil()
		}
		if o.T != tString {
			return eWrongType()
		}
		r := strReply(o)
		m.del(s, a[1])
		return r
	})
	reg("getex", -2, true, mGetEx)
	reg("mget", -2, false, func(m *Model, s *Sess, a []string, _ bool) Expect {
		sub := make([]Expect, 0, len(a)-1)
		for _, k := range a[1:] {
			o := m.get(s, k)
			if o == nil || o.T != tString {
				sub = append(sub, eNil())
			} else {
				sub = append(sub, strReply(o))
			}
		}
		return eArr(sub...)
	})
	reg("mset", -3, true, func(m *Model, s *Sess, a []string, _ bool) Expect {
		if len(a)%2 != 1 {
			return eArgErr()
		}
		for i := 1; i+1 < len(a); i += 2 {
			m.set(s, a[i], &mObj{T: tString, S: a[i+1]})
		}
		return eOK()
	})
	reg("msetnx", -3, true, func(m *Model, s *Sess, a []string, _ bool) Expect {
		if len(a)%2 != 1 {
			return eArgErr()
		}
		for i := 1; i+1 < len(a); i += 2 {
			if m.get(s, a[i]) != nil {
				return eInt(0)
			}
		}
		for i := 1; i+1 < len(a); i += 2 {
			m.set(s, a[i], &mObj{T: tString, S: a[i+1]})
		}
		return eInt(1)
	})
	reg("append", 3, true, func(m *Model, s *Sess, a []string, _ bool) Expect {
		o := m.get(s, a[1])
		if o == nil {
			m.set(s, a[1], &mObj{T: tString, S: a[2]})
			return eInt(int64(len(a[2])))
		}
		if o.T != tString {
			return eWrongType()
		}
		o.S += a[2]
		o.Float = false
		m.modified(s, a[1])
		return eInt(int64(len(o.S)))
	})
	reg("strlen", 2, false, func(m *Model, s *Sess, a []string, _ bool) Expect {
		o := m.get(s, a[1])
		if o == nil {
			return eInt(0)
		}
		if o.T != tString {
			return eWrongType()
		}
		if o.Float {
			return Expect{Mode: exAny}
		}
		return eInt(int64(len(o.S)))
	})
	getrange := func(m *Model, s *Sess, a []string, _ bool) Expect {
		start, ok1 := parseInt(a[2])
		end, ok2 := parseInt(a[3])
		if !ok1 || !ok2 {
			return eArgErr()
		}
		o := m.get(s, a[1])
		if o != nil && o.T != tString {
			return eWrongType()
		}
		if o == nil {
			return eBulk("")
		}
		if o.Float {
			return Expect{Mode: exAny}
		}
		n := int64(len(o.S))
		if start < 0 && end < 0 && start > end {
			return eBulk("")
		}
		if start < 0 {
			start = n + start
		}
		if end < 0 {
			end = n + end
		}
		if start < 0 {
			start = 0
		}
		quirk := false
		if end < 0 {
			// an end index before the start of the string: Redis 7.0 clamps it to
			// 0 and returns the first byte (redis issue 11738, changed later);
			// both that and the empty string are accepted
			end = 0
			quirk = true
		}
		if end >= n {
			end = n - 1
		}
		if n == 0 || start > end {
			return eBulk("")
		}
		if quirk {
			return eAlt(eBulk(o.S[start:end+1]), eBulk(""))
		}
		return eBulk(o.S[start : end+1])
	}
	reg("getrange", 4, false, getrange)
	reg("substr", 4, false, getrange)
	reg("setrange", 4, true, func(m *Model, s *Sess, a []string, _ bool) Expect {
		off, ok := parseInt(a[2])
		if !ok {
			return eArgErr()
		}
		if off < 0 {
			return eArgErr()
		}
		o := m.get(s, a[1])
		if o != nil && o.T != tString {
			return eWrongType()
		}
		v := a[3]
		if o == nil {
			if len(v) == 0 {
				return eInt(0)
			}
			if off > 512*1024*1024 || off+int64(len(v)) > 512*1024*1024 {
				return eArgErr()
			}
			m.set(s, a[1], &mObj{T: tString, S: strings.Repeat("\x00", int(off)) + v})
			return eInt(off + int64(len(v)))
		}
		if len(v) == 0 {
			if o.Float {
				return Expect{Mode: exAny}
			}
			return eInt(int64(len(o.S)))
		}
		if off > 512*1024*1024 || off+int64(len(v)) > 512*1024*1024 {
			return eArgErr()
		}
		b := []byte(o.S)
		for int64(len(b)) < off+int64(len(v)) {
			b = append(b, 0)
		}
		copy(b[off:], v)
		o.S = string(b)
		o.Float = false
		m.modified(s, a[1])
		return eInt(int64(len(o.S)))
	})
	reg("incr", 2, true, func(m *Model, s *Sess, a []string, _ bool) Expect { return mIncr(m, s, a[1], 1) })
	reg("decr", 2, true, func(m *Model, s *Sess, a []string, _ bool) Expect { return mIncr(m, s, a[1], -1) })
	reg("incrby", 3, true, func(m *Model, s *Sess, a []string, _ bool) Expect {
		d, ok := parseInt(a[2])
		if !ok {
			return eArgErr()
		}
		return mIncr(m, s, a[1], d)
	})
	reg("decrby", 3, true, func(m *Model, s *Sess, a []string, _ bool) Expect {
		d, ok := parseInt(a[2])
		if !ok {
			return eArgErr()
		}
		if d == minInt64 {
			return eArgErr()
		}
		return mIncr(m, s, a[1], -d)
	})
	reg("incrbyfloat", 3, true, func(m *Model, s *Sess, a []string, _ bool) Expect {
		o := m.get(s, a[1])
		if d0, ok := parseFloat(a[2]); !ok || math.IsNaN(d0) || math.IsInf(d0, 0) {
			return eArgErr()
		}
		if o != nil && o.T != tString {
			return eWrongType()
		}
		cur := 0.0
		if o != nil {
			f, ok := parseFloat(o.S)
			if !ok {
				return eArgErr()
			}
			cur = f
		}
		d, ok := parseFloat(a[2])
		if !ok {
			return eArgErr()
		}
		r := cur + d
		if math.IsNaN(r) || math.IsInf(r, 0) {
			return eArgErr()
		}
		str := strconv.FormatFloat(r, 'f', -1, 64)
		if o == nil {
			m.set(s, a[1], &mObj{T: tString, S: str, Float: true})
		} else {
			o.S = str
			o.Float = true
			m.modified(s, a[1])
		}
		return eFloat(r)
	})
	reg("lcs", -3, false, mLcs)
}

func strReply(o *mObj) Expect {
	if o.Float {
		f, _ := strconv.ParseFloat(o.S, 64)
		return eFloat(f)
	}
	return eBulk(o.S)
}

type expireOpt struct {
	has     bool
	at      int64 // absolute unix ns
	keepttl bool
	persist bool
	bad     bool // invalid expire time
	slack   int64
}

// parseExpireTok evaluates an EX/PX/EXAT/PXAT operand with Redis' validity
// rules (positive, no overflow in milliseconds) and returns the absolute
// deadline in unix nanoseconds, saturated at the int64 maximum.
func parseExpireTok(tok string, val string, now int64) (at int64, ok bool, bad bool) {
	n, isInt := parseInt(val)
	if !isInt || n <= 0 {
		return 0, true, true
	}
	nowMs := now / int64(1e6)
	var absMs int64
	switch tok {
	case "EX", "EXAT":
		if n > maxInt64/1000 {
			return 0, true, true
		}
		absMs = n * 1000
	case "PX", "PXAT":
		absMs = n
	default:
		return 0, false, false
	}
	if tok == "EX" || tok == "PX" {
		if absMs > maxInt64-nowMs {
			return 0, true, true
		}
		// relative: keep sub-millisecond precision of now
		if absMs > (maxInt64-now)/int64(1e6) {
			return maxInt64, true, false
		}
		return now + absMs*int64(1e6), true, false
	}
	if absMs > maxInt64/int64(1e6) {
		return maxInt64, true, false
	}
	return absMs * int64(1e6), true, false
}

func mSet(m *Model, s *Sess, a []string, _ bool) Expect {
	key, val := a[1], a[2]
	nx, xx, get := false, false, false
	var eo expireOpt
	for i := 3; i < len(a); i++ {
		t := upper(a[i])
		switch t {
		case "NX":
			nx = true
		case "XX":
			xx = true
		case "GET":
			get = true
		case "KEEPTTL":
			if eo.has {
				return eArgErr()
			}
			eo.keepttl = true
		case "EX", "PX", "EXAT", "PXAT":
			if eo.has || eo.keepttl || i+1 >= len(a) {
				return eArgErr()
			}
			at, _, bad := parseExpireTok(t, a[i+1], m.now)
			eo.has, eo.at, eo.bad = true, at, bad
			if t == "EXAT" {
				eo.slack = int64(1e9) - 1
			}
			i++
		default:
			return eArgErr()
		}
	}
	if nx && xx {
		return eArgErr()
	}
	if eo.has && eo.keepttl {
		return eArgErr()
	}
	if eo.bad {
		return eArgErr()
	}
	o := m.get(s, key)
	if get && o != nil && o.T != tString {
		return eWrongType()
	}
	old := eNil()
	if o != nil && get {
		old = strReply(o)
	}
	if (nx && o != nil) || (xx && o == nil) {
		if get {
			return old
		}
		return eNil()
	}
	n := &mObj{T: tString, S: val}
	if eo.has {
		n.Exp, n.Slack = eo.at, eo.slack
	} else if eo.keepttl && o != nil {
		n.Exp, n.Slack = o.Exp, o.Slack
	}
	m.set(s, key, n)
	if get {
		return old
	}
	return eOK()
}

func mSetEx(m *Model, s *Sess, a []string, unit int64) Expect {
	n, ok := parseInt(a[2])
	if !ok || n <= 0 {
		return eArgErr()
	}
	if n > (maxInt64-m.now)/unit {
		return eArgErr()
	}
	m.set(s, a[1], &mObj{T: tString, S: a[3], Exp: m.now + n*unit})
	return eOK()
}

func mGetEx(m *Model, s *Sess, a []string, _ bool) Expect {
	var eo expireOpt
	for i := 2; i < len(a); i++ {
		t := upper(a[i])
		switch t {
		case "PERSIST":
			if eo.has || eo.persist {
				return eArgErr()
			}
			eo.persist = true
		case "EX", "PX", "EXAT", "PXAT":
			if eo.has || eo.persist || i+1 >= len(a) {
				return eArgErr()
			}
			at, _, bad := parseExpireTok(t, a[i+1], m.now)
			eo.has, eo.at, eo.bad = true, at, bad
			if t == "EXAT" {
				eo.slack = int64(1e9) - 1
			}
			i++
		default:
			return eArgErr()
		}
	}
	if eo.bad {
		return eArgErr()
	}
	o := m.get(s, a[1])
	if o == nil {
		return eNil()
	}
	if o.T != tString {
		return eWrongType()
	}
	r := strReply(o)
	if eo.has {
		if eo.at+eo.slack < m.now {
			m.del(s, a[1])
		} else {
			o.Exp, o.Slack = eo.at, eo.slack
			m.modified(s, a[1])
		}
	} else if eo.persist {
		if o.Exp != 0 {
			o.Exp, o.Slack = 0, 0
			m.modified(s, a[1])
		}
	}
	return r
}

func mIncr(m *Model, s *Sess, key string, d int64) Expect {
	o := m.get(s, key)
	if o != nil && o.T != tString {
		return eWrongType()
	}
	cur := int64(0)
	if o != nil {
		v, ok := parseInt(o.S)
		if !ok || o.Float {
			if o.Float {
				// a float-formatted value may or may not look like an integer
				if f, err := strconv.ParseFloat(o.S, 64); err == nil && f == math.Trunc(f) && math.Abs(f) < 1e15 {
					v, ok = int64(f), true
				}
			}
			if !ok {
				return eArgErr()
			}
		}
		cur = v
	}
	if (d > 0 && cur > maxInt64-d) || (d < 0 && cur < minInt64-d) {
		return eArgErr()
	}
	r := cur + d
	if o == nil {
		m.set(s, key, &mObj{T: tString, S: strconv.FormatInt(r, 10)})
	} else {
		o.S = strconv.FormatInt(r, 10)
		o.Float = false
		m.modified(s, key)
	}
	return eInt(r)
}

// LCS: the longest common subsequence is not unique; the expectation checks
// length and validity instead of a particular string.
func lcsLen(x, y string) int {
	n, k := len(x), len(y)
	prev := make([]int, k+1)
	cur := make([]int, k+1)
	for i := 1; i <= n; i++ {
		for j := 1; j <= k; j++ {
			if x[i-1] == y[j-1] {
				cur[j] = prev[j-1] + 1
			} else if prev[j] >= cur[j-1] {
				cur[j] = prev[j]
			} else {
				cur[j] = cur[j-1]
			}
		}
		prev, cur = cur, prev
	}
	return prev[k]
}

func isSubseq(sub, s string) bool {
	i := 0
	for j := 0; j < len(s) && i < len(sub); j++ {
		if s[j] == sub[i] {
			i++
		}
	}
	return i == len(sub)
}

func mLcs(m *Model, s *Sess, a []string, _ bool) Expect {
	wantLen, idx, withLen := false, false, false
	minMatch := int64(0)
	for i := 3; i < len(a); i++ {
		switch upper(a[i]) {
		case "LEN":
			wantLen = true
		case "IDX":
			idx = true
		case "WITHMATCHLEN":
			withLen = true
		case "MINMATCHLEN":
			if i+1 >= len(a) {
				return eArgErr()
			}
			n, ok := parseInt(a[i+1])
			if !ok {
				return eArgErr()
			}
			if n < 0 {
				n = 0
			}
			minMatch = n
			i++
		default:
			return eArgErr()
		}
	}
	if wantLen && idx {
		return eArgErr()
	}
	var x, y string
	for i, k := range a[1:3] {
		o := m.get(s, k)
		if o != nil && o.T != tString {
			return eErr("*")
		}
		if o != nil {
			if i == 0 {
				x = o.S
			} else {
				y = o.S
			}
		}
	}
	l := lcsLen(x, y)
	if wantLen {
		return eInt(int64(l))
	}
	if !idx {
		return ePred("a longest common subsequence", func(got Value) error {
			if got.K != KBulk {
				return errf("not a bulk string")
			}
			if len(got.S) != l {
				return errf("length %d, the LCS length is %d", len(got.S), l)
			}
			if !isSubseq(got.S, x) || !isSubseq(got.S, y) {
				return errf("not a common subsequence")
			}
			return nil
		})
	}
	return ePred("LCS IDX result", func(got Value) error {
		// ["matches", [...], "len", N]
		if (got.K != KArray && got.K != KMap) || len(got.A) != 4 {
			return errf("not a 4-element matches/len structure")
		}
		var matches, ln *Value
		for i := 0; i < 4; i += 2 {
			switch got.A[i].S {
			case "matches":
				matches = &got.A[i+1]
			case "len":
				ln = &got.A[i+1]
			}
		}
		if matches == nil || ln == nil || ln.K != KInt || matches.K != KArray {
			return errf("missing matches/len")
		}
		if ln.I != int64(l) {
			return errf("len %d, the LCS length is %d", ln.I, l)
		}
		total := int64(0)
		lastA, lastB := int64(len(x)), int64(len(y))
		for _, mt := range matches.A {
			want := 2
			if withLen {
				want = 3
			}
			if mt.K != KArray || len(mt.A) != want {
				return errf("match entry has wrong shape")
			}
			ra, rb := mt.A[0], mt.A[1]
			if ra.K != KArray || rb.K != KArray || len(ra.A) != 2 || len(rb.A) != 2 {
				return errf("match range has wrong shape")
			}
			as, ae, bs2, be := ra.A[0].I, ra.A[1].I, rb.A[0].I, rb.A[1].I
			if as < 0 || ae < as || ae >= int64(len(x)) || bs2 < 0 || be < bs2 || be >= int64(len(y)) {
				return errf("match range out of bounds")
			}
			if ae-as != be-bs2 || x[as:ae+1] != y[bs2:be+1] {
				return errf("match ranges do not hold equal substrings")
			}
			if ae >= lastA || be >= lastB {
				return errf("matches are not strictly descending / overlap")
			}
			lastA, lastB = as, bs2
			ml := ae - as + 1
			if ml < minMatch {
				return errf("match shorter than MINMATCHLEN")
			}
			if withLen && mt.A[2].I != ml {
				return errf("WITHMATCHLEN value wrong")
			}
			total += ml
		}
		if minMatch <= 1 && total != int64(l) {
			return errf("matches cover %d characters, LCS length is %d", total, l)
		}
		if total > int64(l) {
			return errf("matches cover more than the LCS length")
		}
		return nil
	})
}
