package sim

import (
	"strconv"
	"strings"
)

// genDbPlan: C14 - several connections, several databases, flushes and
// per-connection session state; clients take turns so the model is exact.
func genDbPlan(seed uint64, thorough bool) *Plan {
	g := newGen(seed, 4)
	g.keys = []string{"k0", "k1", "k2"}[:2+g.r.IntN(2)]
	p := &Plan{Prop: "C14", Seed: seed, Class: "turns", Knobs: Knobs{Turns: true, Dump: true, RandSeed: int64(seed), MaxSteps: 80000}}
	p.Knobs.Frag = g.chance(3)
	p.Knobs.Sticky = 50
	dbs := []string{"0", "1", "2", "15"}
	tk := map[mType][]string{tString: {g.keys[0]}, tList: {g.keys[1]}}
	if len(g.keys) > 2 {
		tk[tSet] = []string{g.keys[2]}
	}
	nc := 2 + g.r.IntN(3)
	for c := 0; c < nc; c++ {
		g.client = c + 1
		var items []Item
		add := func(a ...string) { items = append(items, cmdItem(a...)) }
		if g.chance(3) {
			// a connection that is opened late (after others have flushed)
			items = append(items, Item{Op: "barrier", N: 1})
		}
		n := 6 + g.r.IntN(20)
		for i := 0; i < n; i++ {
			switch g.r.IntN(24) {
			case 0, 1, 2:
				add("SELECT", dbs[g.r.IntN(len(dbs))])
			case 3:
				add("SELECT", g.pick("16", "-1", "x", "100", "", "1.0"))
			case 4, 5:
				add("FLUSHDB")
			case 6:
				add("FLUSHALL")
			case 7:
				add(g.pick("FLUSHDB", "FLUSHALL"), g.pick("ASYNC", "SYNC"))
			case 8, 9:
				add("DBSIZE")
			case 10:
				add("KEYS", "*")
			case 11:
				add("CLIENT", "SETNAME", "n"+strconv.Itoa(g.client)+"."+strconv.Itoa(i))
			case 12:
				add("CLIENT", "GETNAME")
			case 13:
				// a transaction that spans a flush by somebody else
				add("MULTI")
				add(g.concCmd(tk)...)
				if g.chance(3) {
					add(g.pick("FLUSHDB", "FLUSHALL"))
				}
				if g.chance(3) {
					// a queued SELECT takes effect when EXEC runs it: the commands
					// after it (and after EXEC) work on the new database
					add("SELECT", dbs[g.r.IntN(len(dbs))])
					if g.chance(3) {
						// ... and commands that look at other databases from there
						add(g.pick("FLUSHALL", "CLIENT INFO", "CLIENT LIST", "DBSIZE"))
						last := items[len(items)-1]
						if f := strings.Fields(string(last.Args[0])); len(f) == 2 {
							items[len(items)-1] = cmdItem(f[0], f[1])
						}
					}
				}
				add(g.concCmd(tk)...)
				if g.chance(2) {
					add("EXEC")
				} else {
					add(g.pick("EXEC", "DISCARD"))
				}
			case 14:
				add("WATCH", g.key())
				if g.chance(3) {
					add("SELECT", dbs[g.r.IntN(len(dbs))])
				}
				add("MULTI")
				if g.chance(3) {
					add("SELECT", dbs[g.r.IntN(len(dbs))])
					add("CLIENT", "INFO")
				}
				add("SET", g.key(), g.val())
				add("EXEC")
			case 15:
				items = append(items, Item{Op: "reconnect"})
			default:
				add(g.concCmd(tk)...)
			}
		}
		p.Clients = append(p.Clients, Client{Items: items})
	}
	// release late joiners once the first client is half way
	half := len(p.Clients[0].Items) / 2
	first := p.Clients[0].Items
	p.Clients[0].Items = append(append(append([]Item(nil), first[:half]...), Item{Op: "barrier", N: 1}), first[half:]...)
	// everybody meets, then every connection writes a marker into its current
	// database and the observer reads all databases
	for c := range p.Clients {
		p.Clients[c].Items = append(p.Clients[c].Items, Item{Op: "barrier", N: 2}, cmdItem("SET", "marker"+strconv.Itoa(c), "x"), Item{Op: "barrier", N: 3})
	}
	keys := append([]string{}, g.keys...)
	for c := range p.Clients {
		keys = append(keys, "marker"+strconv.Itoa(c))
	}
	obs := observation(keys, 3, 0, 1, 2, 15)
	p.Clients = append(p.Clients, obs)
	return p
}
