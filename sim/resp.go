package sim

// Harness-side RESP2/RESP3 codec, written independently of /repo's resp.go.

import (
	"encoding/hex"
	"encoding/json"
	"errors"
	"fmt"
	"math"
	"regexp"
	"sort"
	"strconv"
	"strings"
	"unicode/utf8"
)

type Kind uint8

const (
	KNil Kind = iota // RESP2 null bulk / null array, RESP3 null
	KInt
	KBulk
	KSimple
	KErr
	KArray
	KMap
	KSet
	KDouble
	KBool
	KBigNum
	KVerbatim
	KPush
	KBulkErr
)

var kindNames = [...]string{"nil", "int", "bulk", "simple", "err", "array", "map", "set", "double", "bool", "bignum", "verbatim", "push", "bulkerr"}

func (k Kind) String() string { return kindNames[k] }

// Value is a parsed RESP value.
type Value struct {
	K     Kind
	I     int64
	S     string
	F     float64
	A     []Value // array, set, push; map as k0,v0,k1,v1...
	Null3 bool    // the wire form was RESP3 "_" (as opposed to $-1 / *-1)
	NullA bool    // the wire form was *-1
}

func (v Value) String() string {
	switch v.K {
	case KNil:
		return "(nil)"
	case KInt:
		return fmt.Sprintf("(int)%d", v.I)
	case KBulk:
		return fmt.Sprintf("%q", v.S)
	case KSimple:
		return "+" + v.S
	case KErr, KBulkErr:
		return "-" + v.S
	case KDouble:
		return fmt.Sprintf("(double)%v", v.F)
	case KBool:
		return fmt.Sprintf("(bool)%v", v.I != 0)
	case KBigNum:
		return "(big)" + v.S
	case KVerbatim:
		return fmt.Sprintf("(verbatim)%q", v.S)
	}
	var sb strings.Builder
	sb.WriteString(v.K.String())
	sb.WriteByte('[')
	for i, e := range v.A {
		if i > 0 {
			sb.WriteByte(' ')
		}
		if i >= 40 {
			fmt.Fprintf(&sb, "...%d more", len(v.A)-i)
			break
		}
		sb.WriteString(e.String())
	}
	sb.WriteByte(']')
	return sb.String()
}

// INFO fields derived from the process (uuid, and the real start time of the
// process, which the emulator captures in a package-level variable before any
// bubble exists)
var runIdRe = regexp.MustCompile(`(run_id:[0-9a-f]{32}|server_time_usec:-?\d+|uptime_in_seconds:-?\d+|uptime_in_days:-?\d+)`)

// Canon is String without the two things that legitimately differ between two
// executions of the same seed: the order in which the emulator emits the
// members of a RESP3 set (Go map iteration), and INFO's per-process run_id.
// It is what event logs and determinism fingerprints are made of.
func (v Value) Canon() string {
	switch v.K {
	case KArray, KMap, KSet, KPush:
	case KBulk, KVerbatim:
		if strings.Contains(v.S, "run_id:") {
			w := v
			w.S = runIdRe.ReplaceAllStringFunc(v.S, func(m string) string { return m[:strings.IndexByte(m, ':')+1] + "*" })
			return w.String()
		}
		return v.String()
	default:
		return v.String()
	}
	parts := make([]string, len(v.A))
	for i, e := range v.A {
		parts[i] = e.Canon()
	}
	if v.K == KSet {
		sort.Strings(parts)
	}
	if v.K == KMap && len(parts)%2 == 0 {
		// some maps are built by ranging over a Go map (HELLO)
		pairs := make([]string, 0, len(parts)/2)
		for i := 0; i+1 < len(parts); i += 2 {
			pairs = append(pairs, parts[i]+" "+parts[i+1])
		}
		sort.Strings(pairs)
		parts = pairs
	}
	return v.K.String() + "[" + strings.Join(parts, " ") + "]"
}

// ErrClass is the first word of an error reply ("ERR", "WRONGTYPE", ...).
func (v Value) ErrClass() string {
	if v.K != KErr && v.K != KBulkErr {
		return ""
	}
	s := v.S
	if i := strings.IndexByte(s, ' '); i >= 0 {
		s = s[:i]
	}
	return s
}

func (v Value) IsErr() bool { return v.K == KErr || v.K == KBulkErr }

var errMalformed = errors.New("malformed RESP")

const maxAgg = 1 << 22

// ParseValue parses one value from buf. n == 0 && err == nil: need more bytes.
func ParseValue(buf []byte) (v Value, n int, err error) {
	return parseAt(buf, 0, 0)
}

func readLine(buf []byte, pos int) (line []byte, next int, ok bool) {
	for i := pos; i+1 < len(buf); i++ {
		if buf[i] == '\r' && buf[i+1] == '\n' {
			return buf[pos:i], i + 2, true
		}
		if buf[i] == '\n' {
			return nil, 0, true // bare LF inside a header line: malformed
		}
	}
	return nil, 0, false
}

func parseAt(buf []byte, pos int, depth int) (v Value, n int, err error) {
	if depth > 64 {
		return v, 0, errMalformed
	}
	if pos >= len(buf) {
		return v, 0, nil
	}
	t := buf[pos]
	line, next, ok := readLine(buf, pos+1)
	if !ok {
		return v, 0, nil
	}
	if line == nil && next == 0 {
		return v, 0, errMalformed
	}
	switch t {
	case '+':
		return Value{K: KSimple, S: string(line)}, next, nil
	case '-':
		return Value{K: KErr, S: string(line)}, next, nil
	case ':':
		i, e := strconv.ParseInt(string(line), 10, 64)
		if e != nil {
			return v, 0, errMalformed
		}
		return Value{K: KInt, I: i}, next, nil
	case '_':
		if len(line) != 0 {
			return v, 0, errMalformed
		}
		return Value{K: KNil, Null3: true}, next, nil
	case '#':
		if string(line) == "t" {
			return Value{K: KBool, I: 1}, next, nil
		}
		if string(line) == "f" {
			return Value{K: KBool, I: 0}, next, nil
		}
		return v, 0, errMalformed
	case ',':
		s := string(line)
		var f float64
		switch s {
		case "inf", "+inf":
			f = math.Inf(1)
		case "-inf":
			f = math.Inf(-1)
		case "nan":
			f = math.NaN()
		default:
			f, err = strconv.ParseFloat(s, 64)
			if err != nil {
				return v, 0, errMalformed
			}
		}
		return Value{K: KDouble, F: f, S: s}, next, nil
	case '(':
		return Value{K: KBigNum, S: string(line)}, next, nil
	case '$', '=', '!':
		l, e := strconv.ParseInt(string(line), 10, 64)
		if e != nil || l < -1 || l > 1<<31 {
			return v, 0, errMalformed
		}
		if l == -1 {
			if t != '$' {
				return v, 0, errMalformed
			}
			return Value{K: KNil}, next, nil
		}
		if next+int(l)+2 > len(buf) {
			return v, 0, nil
		}
		if buf[next+int(l)] != '\r' || buf[next+int(l)+1] != '\n' {
			return v, 0, errMalformed
		}
		s := string(buf[next : next+int(l)])
		k := KBulk
		if t == '=' {
			k = KVerbatim
		} else if t == '!' {
			k = KBulkErr
		}
		return Value{K: k, S: s}, next + int(l) + 2, nil
	case '*', '~', '>', '%':
		l, e := strconv.ParseInt(string(line), 10, 64)
		if e != nil || l < -1 || l > maxAgg {
			return v, 0, errMalformed
		}
		if l == -1 {
			if t != '*' {
				return v, 0, errMalformed
			}
			return Value{K: KNil, NullA: true}, next, nil
		}
		cnt := int(l)
		k := KArray
		switch t {
		case '~':
			k = KSet
		case '>':
			k = KPush
		case '%':
			k = KMap
			cnt *= 2
		}
		out := Value{K: k, A: make([]Value, 0, min(cnt, 1024))}
		p := next
		for i := 0; i < cnt; i++ {
			e, m, err := parseAt(buf, p, depth+1)
			if err != nil {
				return v, 0, err
			}
			if m == 0 {
				return v, 0, nil
			}
			out.A = append(out.A, e)
			p = m
		}
		return out, p, nil
	}
	return v, 0, errMalformed
}

// EncodeCmd encodes a command as an array of bulk strings.
func EncodeCmd(args []B) []byte {
	n := 16
	for _, a := range args {
		n += len(a) + 16
	}
	b := make([]byte, 0, n)
	b = append(b, '*')
	b = strconv.AppendInt(b, int64(len(args)), 10)
	b = append(b, '\r', '\n')
	for _, a := range args {
		b = append(b, '$')
		b = strconv.AppendInt(b, int64(len(a)), 10)
		b = append(b, '\r', '\n')
		b = append(b, a...)
		b = append(b, '\r', '\n')
	}
	return b
}

// B is a byte string that survives JSON: valid UTF-8 is written as a JSON
// string, anything else as {"x": "<hex>"}.
type B string

func (b B) MarshalJSON() ([]byte, error) {
	if utf8.ValidString(string(b)) {
		return json.Marshal(string(b))
	}
	return json.Marshal(map[string]string{"x": hex.EncodeToString([]byte(b))})
}

func (b *B) UnmarshalJSON(data []byte) error {
	if len(data) > 0 && data[0] == '"' {
		var s string
		if err := json.Unmarshal(data, &s); err != nil {
			return err
		}
		*b = B(s)
		return nil
	}
	var m map[string]string
	if err := json.Unmarshal(data, &m); err != nil {
		return err
	}
	raw, err := hex.DecodeString(m["x"])
	if err != nil {
		return err
	}
	*b = B(raw)
	return nil
}

func bs(args ...string) []B {
	out := make([]B, len(args))
	for i, a := range args {
		out[i] = B(a)
	}
	return out
}

func strs(args []B) []string {
	out := make([]string, len(args))
	for i, a := range args {
		out[i] = string(a)
	}
	return out
}
