package sim

import (
	"fmt"
	"hash/fnv"
	"math"
	"math/rand"
	"os"
	"path/filepath"
	"sort"
	"strconv"
	"strings"
	"sync"
	"sync/atomic"
	"testing"
	"testing/synctest"
	"time"

	redisemu "github.com/jimsnab/go-redisemu"
)

// Script item ops (Item.Op):
//
//	""          command: Args (or Raw bytes) are sent, one reply is expected unless NoReply
//	"adv"       advance the simulated clock by N nanoseconds
//	"connect"   open the connection now (otherwise it is opened before the first command)
//	"close"     client closes the connection (FIN); "reset": the peer vanishes (reads fail)
//	"barrier"   wait until every client whose script contains barrier N has reached it
//	"await-blocked"  wait until client N's command in flight is parked in its blocking select
//	"await-idle"     wait until no emulator task is runnable and no other client can act
//	"stop-reading"   bound the reply queue to N bytes (server writes block beyond it)
//	"emu-new"   create emulator instance N (S = "persist" to give it the run's persist path)
//	"emu-start" / "emu-term" / "emu-wait" / "emu-close": lifecycle calls on instance N
//	"crash-restart": discard instance N without shutdown and create+start a successor on the crash image
//
// Now=true lets a non-command item run although replies are still outstanding.

// Op is one command of the recorded history.
type Op struct {
	Client  int
	Idx     int // index into the client's Items
	Item    *Item
	Invoke  int64 // scheduler step at which the first byte was handed to the transport
	Return  int64 // step at which the server wrote the last byte of the reply; -1 = none
	TInvoke time.Duration
	TReturn time.Duration
	Reply   Value
	Raw     []byte
	ConnGen int
	Lost    bool // connection ended before a reply arrived
	// wasBlocked: the command was seen sitting in its blocking select
	wasBlocked  bool
	BlockedAt   time.Duration
	BlockedStep int64
	protoAt     int  // (C15) protocol the connection spoke when the reply was read
	AfterClose  bool // (C20) sent after the connection's emulator had returned from Close
	// endOff: offset in the connection's current send buffer at which this request ends
	// (0 = the request went out with an earlier buffer and is delivered completely)
	endOff int
}

type Violation struct {
	Oracle string `json:"oracle"`
	Fp     string `json:"fp"` // fingerprint (class of the violation)
	Msg    string `json:"msg"`
	Step   int64  `json:"step"`
}

func (v *Violation) String() string {
	return fmt.Sprintf("[%s] %s (fp=%s, step=%d)", v.Oracle, v.Msg, v.Fp, v.Step)
}

// Checker is the per-property oracle attached to a run.
type Checker interface {
	// OnReply is called on the scheduler goroutine each time a reply has been
	// matched to its command, in per-connection order.
	OnReply(w *World, op *Op) *Violation
	// OnStep is called after every scheduler step (may be nil-op).
	OnStep(w *World) *Violation
	// Final is called when the run has ended, before teardown.
	Final(w *World) *Violation
}

type simClient struct {
	idx       int
	plan      *Client
	conn      *Conn
	connGen   int
	connInst  *emuInst // the emulator instance the current connection was made to
	everConn  bool
	cliClosed bool
	pos       int
	sendbuf   []byte
	cuts      []int
	loops     int
	sent      int
	// hold: the rest of the send buffer stays with the client until every completely
	// delivered command has been answered (a client that sent one command and the
	// start of the next in one segment, then waits for the first reply)
	hold      bool
	sendOp    *Op
	pending   []*Op
	recv      []byte
	bounds    []bound // chunk end offsets into recv with their steps
	eof       bool    // server closed and everything was consumed
	busy      bool    // an admin op is executing
	busyDone  *atomic.Bool
	malformed bool
	extra     []Value // replies that matched no command
}

type bound struct {
	end  int
	step int64
}

type emuInst struct {
	eng     *redisemu.RedisEmu
	port    int
	persist string
	started bool
	closed  bool
	gen     int
	// closedStep: scheduler step at which Close / WaitForTermination returned
	closedStep int64
}

type Stats struct {
	Steps       int64          `json:"steps"`
	TaskSteps   int64          `json:"taskSteps"`
	SimTime     time.Duration  `json:"simTimeNs"`
	Cmds        int            `json:"cmds"`
	Replies     int            `json:"replies"`
	Faults      map[string]int `json:"faults,omitempty"`
	Probes      map[string]int `json:"probes,omitempty"`
	Leaked      bool           `json:"leaked,omitempty"`
	SchedFp     uint64         `json:"schedFp"`
	Overlaps    int            `json:"overlaps"`
	MaxBuckets  int            `json:"maxBuckets,omitempty"`
	ExpiredSeen int            `json:"expiredSeen,omitempty"`
	EndReason   string         `json:"endReason"`
}

type World struct {
	t     *testing.T
	plan  *Plan
	tape  *Tape
	sched *Sched
	net   *Net
	lane  *quietLane
	chk   Checker

	step       int64
	epoch      time.Time
	clients    []*simClient
	emus       [4]*emuInst
	dir        string
	history    []*Op
	log        []string
	keepLog    bool
	viol       *Violation
	stats      Stats
	fp         uint64
	lastRan    string
	lateCmd    string           // first command goroutine seen running after its emulator's termination had returned
	stalled    map[string]int64 // task name -> step at which the stall ends
	lastParks  map[string]int   // task name -> park count when last seen (arrival detection)
	siteVisits map[string]int   // hook site -> arrivals in this run
	pctPrio    map[string]int   // PCT: priority per actor
	pctChange  []int64          // PCT: remaining priority change points (steps, ascending)
	pctLow     int              // PCT: next priority handed to a yielding actor (descending, negative)
	nconn      int
	admins     []*adminWorker
	idleAdv    time.Duration
	barrier    map[int64]map[int]bool
	stagesHook func(stage, path string)
	stagesMu   sync.Mutex
	inflight   int
	turnLog    []int
	curBuckets int
	scanBefore map[string]bool
	allConns   []*Conn
	res        *RunResult
	orderPos   int
	cands      [maxTasks]cand
	blocked    [maxTasks]bool
}

type adminWorker struct {
	work chan func()
	busy atomic.Bool
}

func (w *World) fault(kind string) {
	if w.stats.Faults == nil {
		w.stats.Faults = map[string]int{}
	}
	w.stats.Faults[kind]++
}

func (w *World) logf(format string, args ...any) {
	s := fmt.Sprintf(format, args...)
	h := fnv.New64a()
	h.Write([]byte(s))
	w.fp = w.fp*1099511628211 ^ h.Sum64()
	if w.keepLog {
		w.log = append(w.log, fmt.Sprintf("%d %s", w.step, s))
	}
}

// Race self-test (bin/check selftest-race): with VS_PLANT_RACE=race every
// emulator goroutine increments an unsynchronised global at each yield point;
// although the scheduler lets only one of them run at a time, the race
// detector has to report it (the scheduler's hand-offs must be invisible to it).
// With VS_PLANT_RACE=guarded the same global is protected by a mutex and
// nothing may be reported.
var (
	plantMode     = os.Getenv("VS_PLANT_RACE")
	plantedGlobal int
	plantedMu     sync.Mutex
)

func plantedAccess() {
	switch plantMode {
	case "race":
		plantedGlobal++
	case "guarded":
		plantedMu.Lock()
		plantedGlobal++
		plantedMu.Unlock()
	}
}

// Now is the simulated time since the start of the run.
func (w *World) Now() time.Duration { return time.Since(w.epoch) }

// WallNow is the simulated wall clock (what the emulator's time.Now() returns).
func (w *World) WallNow() time.Time { return time.Now() }

func (w *World) Emu(i int) *redisemu.RedisEmu {
	if w.emus[i] == nil {
		return nil
	}
	return w.emus[i].eng
}

type RunResult struct {
	TurnLog []int
	Plan    *Plan
	Tape    []uint32
	Viol    *Violation
	History []*Op
	Log     []string
	Stats   Stats
	Extra   map[string]int // oracle-specific counters (coverage)
}

// extraReporter is implemented by checkers that export coverage counters.
type extraReporter interface{ Extra() map[string]int }

var signalOnce sync.Once

// RunPlan executes one simulated run inside a synctest bubble.
// OnPoisoned, when set, is called from inside the bubble with the finished
// result of a run whose emulator goroutines are wedged (spinning forever or
// deadlocked on real mutexes). Such a bubble can never be left: the callback is
// expected to record the result and end the process.
var OnPoisoned func(res *RunResult)

func RunPlan(t *testing.T, plan *Plan, tape *Tape, mk func(*Plan) Checker, keepLog bool) (res *RunResult) {
	w := &World{t: t, plan: plan, tape: tape, keepLog: keepLog, barrier: map[int64]map[int]bool{}}
	res = &RunResult{Plan: plan}
	w.res = res
	dir, err := os.MkdirTemp("", "vsim")
	if err != nil {
		panic(err)
	}
	w.dir = dir
	defer os.RemoveAll(dir)
	redisemu.SimResetGlobals()
	// synctest.Test calls t.FailNow (Goexit) when the bubble's *T was marked
	// failed - which the testing package does on its own whenever the race
	// detector has reported something. It therefore runs on a goroutine of its
	// own, so that a Goexit ends only that goroutine and not the worker loop.
	done := make(chan any, 1)
	go func() {
		var escaped any
		defer func() { done <- escaped }()
		defer func() {
			if r := recover(); r != nil {
				msg := fmt.Sprint(r)
				if strings.Contains(msg, "deadlock: main bubble goroutine has exited") {
					w.stats.Leaked = true
					return
				}
				escaped = r
			}
		}()
		synctest.Test(t, func(t *testing.T) {
			w.run(mk)
		})
	}()
	if r := <-done; r != nil {
		panic(r)
	}
	redisemu.SimInstall(nil)
	w.fillResult()
	return
}

func (w *World) fillResult() {
	res := w.res
	res.Tape = append([]uint32(nil), w.tape.used()...)
	res.Viol = w.viol
	res.TurnLog = w.turnLog
	res.History = w.history
	res.Log = w.log
	w.stats.SchedFp = w.fp
	if w.sched != nil && w.sched.adopted > 0 {
		if w.stats.Faults == nil {
			w.stats.Faults = map[string]int{}
		}
		w.stats.Faults["unannounced-goroutine-scheduled"] += w.sched.adopted
	}
	res.Stats = w.stats
	if er, ok := w.chk.(extraReporter); ok && w.chk != nil {
		res.Extra = er.Extra()
	}
	if res.Extra == nil {
		res.Extra = map[string]int{}
	}
}

// poisoned: some emulator goroutine is in a retry loop it cannot leave, or
// tasks wait for mutexes nobody will release.
func (w *World) poisoned() bool {
	if w.viol != nil && (w.viol.Oracle == "livelock" || w.viol.Oracle == "deadlock") {
		return true
	}
	n, _ := w.sched.snapshot(&w.cands, &w.blocked)
	for i := 0; i < n; i++ {
		if w.cands[i].spins > 8 {
			return true
		}
	}
	return false
}

func (w *World) run(mk func(*Plan) Checker) {
	// the bubble clock starts at 2000-01-01, the emulator's "already expired" sentinel
	time.Sleep(10000 * 24 * time.Hour)
	w.epoch = time.Now()
	w.sched = &Sched{}
	w.net = &Net{}
	w.lane = newQuietLane()
	rand.Seed(w.plan.Knobs.RandSeed)
	s := w.sched
	if os.Getenv("VS_NOADOPT") == "" {
		s.worldGid = curGid()
	}
	redisemu.SimInstall(&redisemu.SimHooks{
		Yield:      func(site string) { plantedAccess(); s.park(nil, site) },
		BeforeLock: func(mu *sync.Mutex, site string) { s.park(mu, site) },
		AfterUnlock: func(mu *sync.Mutex, site string) {
			s.afterUnlock(mu, site)
			if w.plan.Knobs.UnlockYield {
				// what a command does right after it has let go of a lock (with
				// what it read under it) is interleaved with everybody else
				s.park(nil, "unlocked")
			}
		},
		TaskBegin: s.taskBegin,
		TaskEnd:   s.taskEnd,
		Recover: func(v any, stack []byte) {
			s.recordPanic(fmt.Sprint(v), string(stack))
		},
		Probe:        s.probe,
		ClientBorn:   s.clientBorn,
		PersistStage: w.persistStage,
		Listen:       w.net.Listen,
		SelectFirst:  s.selectFirst,
	})
	// admin workers are born before any emulator goroutine exists (DESIGN 2.7)
	for i := 0; i < 3; i++ {
		aw := &adminWorker{work: make(chan func(), 1)}
		w.admins = append(w.admins, aw)
		id := int64(i)
		go func() {
			s.taskBegin("admin", id)
			defer s.taskEnd()
			for f := range aw.work {
				s.park(nil, "admin.op")
				func() {
					defer func() {
						if r := recover(); r != nil {
							s.recordPanic(fmt.Sprint(r), "admin op")
						}
					}()
					f()
				}()
				aw.busy.Store(false)
			}
		}()
	}
	for i := range w.plan.Clients {
		w.clients = append(w.clients, &simClient{idx: i, plan: &w.plan.Clients[i]})
	}
	w.chk = mk(w.plan)
	if !w.plan.Knobs.NoAutoEmu {
		persist := ""
		if w.plan.Knobs.Persist {
			persist = filepath.Join(w.dir, "snap")
		}
		w.emuNew(0, persist)
		w.syncAdmin(func() { w.emus[0].eng.Start(); w.emus[0].started = true })
	}
	w.loop()
	if w.viol == nil {
		w.harvest()
	}
	if w.viol == nil && w.chk != nil {
		w.viol = w.chk.Final(w)
	}
	w.collectProbes()
	w.stats.Steps = w.step
	w.stats.SimTime = w.Now()
	if w.poisoned() {
		if w.viol == nil {
			w.viol = &Violation{Oracle: "livelock", Fp: "livelock:end", Step: w.step,
				Msg: "the run ended (" + w.stats.EndReason + ") with an emulator goroutine still retrying on a client's capture word after every back-off sleep\n" + historyText(w)}
		}
		w.stats.EndReason = "poisoned:" + w.stats.EndReason
		if OnPoisoned != nil {
			w.fillResult()
			OnPoisoned(w.res)
		}
	}
	w.teardown()
}

func (w *World) emuNew(i int, persist string) {
	port := 7000 + i
	gen := 0
	if w.emus[i] != nil {
		gen = w.emus[i].gen + 1
	}
	eng, err := redisemu.NewEmulator(w.lane, port, "", persist, nil)
	if err != nil {
		panic(err)
	}
	w.emus[i] = &emuInst{eng: eng, port: port, persist: persist, gen: gen}
}

// syncAdmin runs f on an admin worker and drives the scheduler (first enabled
// candidate, no choices consumed) until it has completed. Used for setup only.
func (w *World) syncAdmin(f func()) {
	aw := w.admins[0]
	aw.busy.Store(true)
	aw.work <- f
	for i := 0; i < 100000 && aw.busy.Load(); i++ {
		synctest.Wait()
		if !aw.busy.Load() {
			break
		}
		n, _ := w.sched.snapshot(&w.cands, &w.blocked)
		best := -1
		for j := 0; j < n; j++ {
			if w.blocked[j] {
				continue
			}
			if best < 0 || candLess(&w.cands[j], &w.cands[best]) {
				best = j
			}
		}
		if best < 0 {
			time.Sleep(time.Millisecond)
			continue
		}
		w.sched.releaseSlot(w.cands[best].slot)
	}
	synctest.Wait()
}

// syncAdminPass runs f on a fresh goroutine registered as a task and drives the
// scheduler (lowest-named enabled candidate, no tape) until it has completed.
// Used by oracles that start further emulator instances at the end of a run.
func (w *World) syncAdminPass(f func()) {
	var done atomic.Bool
	go func() {
		w.sched.taskBegin("admin", 99)
		defer w.sched.taskEnd()
		defer done.Store(true)
		defer func() {
			if r := recover(); r != nil {
				w.sched.recordPanic(fmt.Sprint(r), "oracle admin op")
			}
		}()
		f()
	}()
	for i := 0; i < 200000 && !done.Load(); i++ {
		synctest.Wait()
		if done.Load() {
			break
		}
		n, _ := w.sched.snapshot(&w.cands, &w.blocked)
		best := -1
		for j := 0; j < n; j++ {
			if w.blocked[j] {
				continue
			}
			if best < 0 || candLess(&w.cands[j], &w.cands[best]) {
				best = j
			}
		}
		if best < 0 {
			time.Sleep(time.Millisecond)
			continue
		}
		w.sched.releaseSlot(w.cands[best].slot)
	}
	synctest.Wait()
}

func candName(c *cand) string { return fmt.Sprintf("c%d.%s#%d", c.id, c.kind, c.seq) }

func candLess(a, b *cand) bool {
	if a.id != b.id {
		return a.id < b.id
	}
	if a.kind != b.kind {
		return a.kind < b.kind
	}
	return a.seq < b.seq
}

func (w *World) persistStage(stage, path string) {
	w.stagesMu.Lock()
	h := w.stagesHook
	w.stagesMu.Unlock()
	if h != nil {
		h(stage, path)
	}
}

func (w *World) collectProbes() {
	names, counts, n := w.sched.probeCounts()
	if n > 0 && w.stats.Probes == nil {
		w.stats.Probes = map[string]int{}
	}
	for i := 0; i < n; i++ {
		w.stats.Probes[names[i]] += counts[i]
	}
}

func (w *World) probe(name string) {
	if w.stats.Probes == nil {
		w.stats.Probes = map[string]int{}
	}
	w.stats.Probes[name]++
}

type evKind int

const (
	evTask evKind = iota
	evClient
	evAdvance
)

type event struct {
	kind evKind
	c    cand
	cli  *simClient
}

func (w *World) maxSteps() int64 {
	if w.plan.Knobs.MaxSteps > 0 {
		return int64(w.plan.Knobs.MaxSteps)
	}
	return 20000
}

func (w *World) loop() {
	var evs []event
	idleRounds := 0
	for {
		synctest.Wait()
		w.harvest()
		if w.viol != nil {
			w.stats.EndReason = "violation"
			return
		}
		if n := w.sched.panicCount(); n > 0 {
			p := w.sched.getPanic(0)
			w.viol = &Violation{Oracle: "panic", Fp: "panic:" + panicFrame(p.stack, p.value), Step: w.step,
				Msg: fmt.Sprintf("emulator goroutine %s of client %d panicked: %s\n%s", p.kind, p.id, p.value, trimStack(p.stack))}
			w.stats.EndReason = "panic"
			return
		}
		for _, c := range w.clients {
			if len(c.pending) > 0 && !c.pending[0].wasBlocked && len(c.pending[0].Item.Args) > 0 && isBlockingCmd(string(c.pending[0].Item.Args[0])) {
				if w.isBlockedInSelect(c.idx) {
					c.pending[0].wasBlocked = true
					c.pending[0].BlockedAt = w.Now()
					c.pending[0].BlockedStep = w.step
				}
			}
		}
		if w.chk != nil {
			if v := w.chk.OnStep(w); v != nil {
				w.viol = v
				w.stats.EndReason = "violation"
				return
			}
		}
		if w.step >= w.maxSteps() {
			w.stats.EndReason = "step-budget"
			// a run that exhausts its budget while some goroutine does nothing
			// but back off and retry is a livelock, not a long run
			n, _ := w.sched.snapshot(&w.cands, &w.blocked)
			for i := 0; i < n; i++ {
				if w.cands[i].spins > 50 {
					w.viol = &Violation{Oracle: "livelock", Fp: "livelock:" + w.cands[i].kind, Step: w.step,
						Msg: fmt.Sprintf("step budget exhausted while task %s has been spinning on a client's capture word for %d consecutive back-off sleeps", candName(&w.cands[i]), w.cands[i].spins)}
					w.stats.EndReason = "livelock"
				}
			}
			return
		}
		evs = evs[:0]
		n, _ := w.sched.snapshot(&w.cands, &w.blocked)
		var tasks []cand
		nblocked := 0
		for i := 0; i < n; i++ {
			if w.blocked[i] {
				nblocked++
				continue
			}
			tasks = append(tasks, w.cands[i])
		}
		sort.Slice(tasks, func(i, j int) bool { return candLess(&tasks[i], &tasks[j]) })
		if k := w.plan.Knobs.Stall; k > 0 && len(tasks) > 0 {
			// one task at a time is set aside. Two sources: a 1-in-k draw per step
			// over the runnable tasks, and - because the interleavings nobody has
			// looked at lie where the code rarely goes - a 1-in-3 draw whenever a
			// task arrives at a site that has been visited at most twice in this run
			if w.stalled == nil {
				w.stalled = map[string]int64{}
				w.lastParks = map[string]int{}
				w.siteVisits = map[string]int{}
			}
			victim, dur := "", 0
			for i := range tasks {
				c := &tasks[i]
				name := candName(c)
				if w.lastParks[name] == c.parks {
					continue
				}
				w.lastParks[name] = c.parks
				w.siteVisits[c.site]++
				if w.siteVisits[c.site] <= 2 && len(w.stalled) == 0 && victim == "" && w.tape.Next(3) == 0 {
					victim, dur = name, 50+w.tape.Next(300)
					w.fault("task-stalled-at-rare-site")
				}
			}
			if victim == "" && len(w.stalled) == 0 && w.tape.Next(k) == 0 {
				victim, dur = candName(&tasks[w.tape.Next(len(tasks))]), 10+w.tape.Next(200)
				w.fault("task-stalled")
			}
			if victim != "" {
				w.stalled[victim] = w.step + int64(dur)
				w.logf("S %s stalled until step %d", victim, w.stalled[victim])
			}
		}
		for i := range tasks {
			if tasks[i].spins > 5 && len(w.stalled) > 0 {
				// somebody spins on a capture word: what it waits for may be the
				// stalled task, and a spin loop is not a state to hold anybody in
				clear(w.stalled)
			}
		}
		var held []cand
		for _, c := range tasks {
			if until, ok := w.stalled[candName(&c)]; ok {
				if w.step < until {
					held = append(held, c)
					continue
				}
				delete(w.stalled, candName(&c))
			}
			evs = append(evs, event{kind: evTask, c: c})
		}
		ntask := len(evs) + len(held)
		for _, c := range w.clients {
			if w.clientEnabled(c, ntask) {
				evs = append(evs, event{kind: evClient, cli: c})
			}
		}
		if len(evs) == 0 && len(held) > 0 {
			// nothing else can move: the stalled tasks come back
			for _, c := range held {
				delete(w.stalled, candName(&c))
				evs = append(evs, event{kind: evTask, c: c})
			}
		}
		if len(evs) == 0 {
			// nothing can move: either everything is finished, or the run waits for a timer
			if w.allDone() {
				w.stats.EndReason = "done"
				return
			}
			if nblocked > 0 && idleRounds > 3 && !w.anyTimerHope() {
				w.viol = w.deadlockViolation()
				w.stats.EndReason = "deadlock"
				return
			}
			d := time.Millisecond << uint(min(idleRounds, 22))
			idleRounds++
			w.idleAdv += d
			if w.idleAdv > w.idleCap() {
				w.stats.EndReason = "quiescent"
				return
			}
			w.logf("idle-advance %v", d)
			w.step++
			time.Sleep(d)
			continue
		}
		if k := w.plan.Knobs.RandAdv; k > 0 && w.tape.Next(k) == 0 {
			evs = append(evs, event{kind: evAdvance})
		}
		var e event
		if d := w.plan.Knobs.PCT; d > 0 {
			e = w.pctPick(evs, d)
		} else if st := w.plan.Knobs.Sticky; st > 0 && w.lastRan != "" && w.tape.Next(100) < st {
			// sticky bias: continue the task that ran last
			found := false
			for _, x := range evs {
				if x.kind == evTask && candName(&x.c) == w.lastRan {
					e, found = x, true
					break
				}
			}
			if !found {
				e = evs[w.tape.Next(len(evs))]
			}
		} else {
			e = evs[w.tape.Next(len(evs))]
		}
		w.step++
		switch e.kind {
		case evTask:
			idleRounds = 0
			w.stats.TaskSteps++
			name := candName(&e.c)
			w.lastRan = name
			w.logf("T %s @%s", name, e.c.site)
			if e.c.kind == "cmd" && w.lateCmd == "" {
				// a command goroutine that still runs after the termination of its
				// emulator has returned (C20 reads this)
				for _, cl := range w.clients {
					if cl.conn != nil && cl.connInst != nil && cl.connInst.closed && cl.connInst.closedStep < w.step && w.emuClientId(cl) == e.c.id {
						w.lateCmd = fmt.Sprintf("%s at site %s (step %d; the termination of its emulator had returned at step %d)", name, e.c.site, w.step, cl.connInst.closedStep)
					}
				}
			}
			if e.c.site == "cs.spin" && e.c.spins > 400 {
				w.viol = &Violation{Oracle: "livelock", Fp: "livelock:" + e.c.kind, Step: w.step,
					Msg: fmt.Sprintf("task %s has only been spinning on the capture word for %d back-off sleeps", name, e.c.spins)}
				w.stats.EndReason = "livelock"
				return
			}
			switch e.c.site {
			case "block.before-wait":
				// the blocking command is about to enter its three-way select
				// (unblock mailbox / timer / wake signal): which case it looks
				// at first when several are ready is a choice of the schedule
				sel := w.tape.Next(3)
				if sel != 0 {
					w.logf("S %s select-first %d", name, sel)
				}
				w.sched.releaseSlotSel(e.c.slot, sel)
			case "saver.before-select":
				sel := w.tape.Next(2)
				if sel != 0 {
					w.logf("S %s select-first %d", name, sel)
				}
				w.sched.releaseSlotSel(e.c.slot, sel)
			default:
				w.sched.releaseSlot(e.c.slot)
			}
		case evClient:
			idleRounds = 0
			w.idleAdv = 0
			w.clientStep(e.cli)
		case evAdvance:
			ds := [...]time.Duration{time.Microsecond, 50 * time.Microsecond, time.Millisecond, 7 * time.Millisecond, 100 * time.Millisecond, time.Second, 3 * time.Second}
			d := ds[w.tape.Next(len(ds))]
			w.logf("A %v", d)
			w.fault("clock-advance")
			time.Sleep(d)
		}
	}
}

func (w *World) idleCap() time.Duration {
	if w.plan.Knobs.IdleCap > 0 {
		return time.Duration(w.plan.Knobs.IdleCap) * time.Millisecond
	}
	return 3 * time.Hour
}

// anyTimerHope: a client is waiting for a reply, so a timer may still fire.
func (w *World) anyTimerHope() bool {
	return w.idleAdv < 10*time.Second
}

func (w *World) deadlockViolation() *Violation {
	n, _ := w.sched.snapshot(&w.cands, &w.blocked)
	var sb strings.Builder
	var sites []string
	for i := 0; i < n; i++ {
		if w.blocked[i] {
			c := &w.cands[i]
			owner := w.sched.ownerOf(c.want)
			fmt.Fprintf(&sb, "%s wants %s held by task slot %d; ", candName(c), c.site, owner)
			sites = append(sites, c.kind+"@"+c.site)
		}
	}
	sort.Strings(sites)
	return &Violation{Oracle: "deadlock", Fp: "deadlock:" + strings.Join(sites, ","), Step: w.step,
		Msg: "no task can run and none is waiting for a timer: " + sb.String()}
}

func (w *World) allDone() bool {
	for _, c := range w.clients {
		if c.pos < len(c.plan.Items) || len(c.pending) > 0 || len(c.sendbuf) > 0 || c.busy {
			return false
		}
	}
	return true
}

// pctPick: the enabled event of the actor with the highest priority (see Knobs.PCT).
func (w *World) pctPick(evs []event, d int) event {
	if w.pctPrio == nil {
		w.pctPrio = map[string]int{}
		items := 0
		for _, c := range w.plan.Clients {
			items += len(c.Items)
		}
		horizon := max(200, 30*items)
		for i := 0; i < d-1; i++ {
			w.pctChange = append(w.pctChange, w.step+1+int64(w.tape.Next(horizon)))
		}
		sort.Slice(w.pctChange, func(i, j int) bool { return w.pctChange[i] < w.pctChange[j] })
	}
	key := func(x *event) string {
		switch x.kind {
		case evTask:
			n := candName(&x.c)
			if i := strings.IndexByte(n, '.'); i > 0 {
				return n[:i]
			}
			return n
		case evClient:
			return "cli" + strconv.Itoa(x.cli.idx)
		}
		return "clock"
	}
	pick := func() int {
		best, bestP := 0, math.MinInt
		for i := range evs {
			k := key(&evs[i])
			p, ok := w.pctPrio[k]
			if !ok {
				p = d + w.tape.Next(1000)
				w.pctPrio[k] = p
			}
			if p > bestP {
				best, bestP = i, p
			}
		}
		return best
	}
	best := pick()
	for len(w.pctChange) > 0 && w.step >= w.pctChange[0] {
		// a change point: whoever would run now drops below everybody
		w.pctPrio[key(&evs[best])] = len(w.pctChange)
		w.pctChange = w.pctChange[1:]
		w.fault("pct-priority-change")
		best = pick()
	}
	if x := &evs[best]; x.kind == evTask && (x.c.site == "cs.spin" || x.c.spins > 0) || x.kind == evAdvance {
		// a spinning task waits for somebody else: it yields (lowest priority from now on)
		w.pctLow--
		w.pctPrio[key(x)] = w.pctLow
	}
	return evs[best]
}

func (w *World) globalInflight() int {
	n := 0
	for _, c := range w.clients {
		n += len(c.pending)
		if len(c.sendbuf) > 0 && c.sendOp == nil {
			n++
		}
		if c.busy {
			n++
		}
	}
	return n
}

func (w *World) clientEnabled(c *simClient, ntask int) bool {
	if c.busy {
		if c.busyDone != nil && c.busyDone.Load() {
			return true // completion event
		}
		return false
	}
	if len(c.sendbuf) > 0 {
		if c.hold {
			for _, o := range c.pending {
				if o.endOff <= c.sent {
					return false
				}
			}
			c.hold = false
		}
		return c.conn != nil && !c.cliClosed
	}
	if c.pos >= len(c.plan.Items) {
		return false
	}
	if o := w.plan.Knobs.Order; w.orderPos < len(o) && o[w.orderPos] != c.idx {
		return false
	}
	it := &c.plan.Items[c.pos]
	switch it.Op {
	case "":
		if c.conn != nil && (c.cliClosed || c.eof) {
			return true // will be recorded as lost
		}
		depth := max(c.plan.Depth, 1)
		if len(c.pending) >= depth {
			return false
		}
		if w.plan.Knobs.Turns && w.globalInflight() > 0 {
			return false
		}
		if c.conn == nil {
			// needs a listener to dial
			return true
		}
		return true
	case "barrier":
		if len(c.pending) > 0 && !it.Now {
			return false
		}
		m := w.barrier[it.N]
		if m == nil {
			m = map[int]bool{}
			w.barrier[it.N] = m
		}
		m[c.idx] = true
		for _, o := range w.clients {
			has := false
			for j := o.pos; j < len(o.plan.Items); j++ {
				if o.plan.Items[j].Op == "barrier" && o.plan.Items[j].N == it.N {
					has = true
					break
				}
			}
			if has && !m[o.idx] {
				return false
			}
		}
		return true
	case "await-blocked":
		if len(c.pending) > 0 && !it.Now {
			return false
		}
		return w.isBlockedInSelect(int(it.N))
	case "await-idle":
		if len(c.pending) > 0 && !it.Now {
			return false
		}
		if ntask > 0 {
			return false
		}
		for _, o := range w.clients {
			if o != c && o.idx < c.idx && w.clientEnabled(o, ntask) {
				return false
			}
			if o != c && (len(o.sendbuf) > 0) {
				return false
			}
		}
		return true
	default:
		if len(c.pending) > 0 && !it.Now {
			return false
		}
		if w.plan.Knobs.Turns && w.globalInflight() > 0 && !it.Now {
			return false
		}
		return true
	}
}

// isBlockedInSelect: client idx has a command in flight whose dispatch task has
// passed the "before-wait" point and is not parked, i.e. sits in the select.
func (w *World) isBlockedInSelect(idx int) bool {
	if idx < 0 || idx >= len(w.clients) {
		return false
	}
	o := w.clients[idx]
	if len(o.pending) == 0 || len(o.sendbuf) > 0 {
		return false
	}
	id := w.emuClientId(o)
	if id == 0 {
		return false
	}
	return w.sched.inSelect(id)
}

// emuClientId: the emulator's id of a connection (ids are handed out in accept order).
func (w *World) emuClientId(c *simClient) int64 {
	if c.conn == nil {
		return 0
	}
	return w.sched.clientIdOf(string(c.conn.remote))
}

func (w *World) consumed(c *simClient) {
	w.turnLog = append(w.turnLog, c.idx)
	w.orderPos++
}

func (w *World) clientStep(c *simClient) {
	pos0 := c.pos
	defer func() {
		if c.pos > pos0 {
			w.consumed(c)
		}
	}()
	if c.busy {
		c.busy = false
		c.busyDone = nil
		w.logf("C c%d admin-done", c.idx)
		c.pos++
		return
	}
	if len(c.sendbuf) > 0 {
		// pipelining: the next command may be written before the previous one
		// has been delivered completely, so that one segment carries several
		if w.plan.Knobs.Frag && len(c.cuts) == 0 && c.pos < len(c.plan.Items) && c.plan.Items[c.pos].Op == "" && len(c.plan.Items[c.pos].Cuts) == 0 &&
			!c.plan.Items[c.pos].NoReply && len(c.pending) < max(c.plan.Depth, 1) && !w.plan.Knobs.Turns && w.tape.Next(2) == 0 {
			it := &c.plan.Items[c.pos]
			if len(it.Args) > 0 {
				switch strings.ToUpper(string(it.Args[0])) {
				case "CLIENT":
					if len(it.Args) > 1 {
						switch strings.ToUpper(string(it.Args[1])) {
						case "KILL":
							w.fault("client-kill-command")
						case "UNBLOCK":
							w.fault("client-unblock-command")
						}
					}
				case "FLUSHALL", "FLUSHDB":
					w.fault("flush-command")
				}
			}
			op := &Op{Client: c.idx, Idx: c.pos, Item: it, Invoke: w.step, Return: -1, TInvoke: w.Now(), ConnGen: c.connGen}
			w.history = append(w.history, op)
			w.stats.Cmds++
			if len(it.Raw) > 0 {
				c.sendbuf = append(c.sendbuf, []byte(it.Raw)...)
			} else {
				c.sendbuf = append(c.sendbuf, EncodeCmd(it.Args)...)
			}
			op.endOff = c.sent + len(c.sendbuf)
			c.pending = append(c.pending, op)
			c.pos++
			w.fault("coalesced-commands")
			w.logf("C c%d send(+) #%d %s", c.idx, op.Idx, argSummary(it))
			return
		}
		w.deliver(c)
		return
	}
	it := &c.plan.Items[c.pos]
	switch it.Op {
	case "":
		if c.conn == nil {
			if !w.connect(c) {
				// refused: the command is lost
				op := &Op{Client: c.idx, Idx: c.pos, Item: it, Invoke: w.step, Return: -1, TInvoke: w.Now(), Lost: true}
				w.history = append(w.history, op)
				w.logf("C c%d refused", c.idx)
				w.probe("connect-refused")
				c.pos++
				if v := w.onReply(op); v != nil {
					w.viol = v
				}
				return
			}
		}
		if c.cliClosed || c.eof {
			op := &Op{Client: c.idx, Idx: c.pos, Item: it, Invoke: w.step, Return: -1, TInvoke: w.Now(), Lost: true, ConnGen: c.connGen}
			if c.connInst != nil && c.connInst.closed && c.connInst.closedStep < w.step {
				op.AfterClose = true
			}
			w.history = append(w.history, op)
			c.pos++
			w.logf("C c%d lost-cmd", c.idx)
			if v := w.onReply(op); v != nil {
				w.viol = v
			}
			return
		}
		var data []byte
		if len(it.Raw) > 0 {
			data = []byte(it.Raw)
		} else {
			args := it.Args
			for i, a := range args {
				if string(a) == "$cursor" {
					cur := "0"
					for i := len(w.history) - 1; i >= 0; i-- {
						if o := w.history[i]; o.Client == c.idx && o.Item == it && o.Return >= 0 {
							if o.Reply.K == KArray && len(o.Reply.A) == 2 {
								cur = o.Reply.A[0].S
								if o.Reply.A[0].K == KInt {
									cur = strconv.FormatInt(o.Reply.A[0].I, 10)
								}
							}
							break
						}
						if o := w.history[i]; o.Client == c.idx && o.Item != it {
							break
						}
					}
					args2 := append([]B(nil), args...)
					args2[i] = B(cur)
					args = args2
					continue
				}
				if string(a) == "$prev" {
					// the bulk/simple string this connection received last
					prev := ""
					for i := len(w.history) - 1; i >= 0; i-- {
						if o := w.history[i]; o.Client == c.idx && o.Return >= 0 {
							prev = o.Reply.S
							break
						}
					}
					args2 := append([]B(nil), args...)
					args2[i] = B(prev)
					args = args2
					continue
				}
				if strings.HasPrefix(string(a), "$id:") {
					// the emulator's id of another scripted connection
					n, _ := strconv.Atoi(string(a[4:]))
					if args2 := append([]B(nil), args...); n >= 0 && n < len(w.clients) {
						args2[i] = B(strconv.FormatInt(w.emuClientId(w.clients[n]), 10))
						args = args2
					}
				}
			}
			data = EncodeCmd(args)
		}
		if len(it.Args) > 0 {
			switch strings.ToUpper(string(it.Args[0])) {
			case "CLIENT":
				if len(it.Args) > 1 {
					switch strings.ToUpper(string(it.Args[1])) {
					case "KILL":
						w.fault("client-kill-command")
					case "UNBLOCK":
						w.fault("client-unblock-command")
					}
				}
			case "FLUSHALL", "FLUSHDB":
				w.fault("flush-command")
			}
		}
		op := &Op{Client: c.idx, Idx: c.pos, Item: it, Invoke: w.step, Return: -1, TInvoke: w.Now(), ConnGen: c.connGen}
		if c.connInst != nil && c.connInst.closed && c.connInst.closedStep < w.step {
			// sent on a connection whose emulator had already returned from Close
			op.AfterClose = true
		}
		w.history = append(w.history, op)
		w.stats.Cmds++
		c.sendbuf = data
		c.cuts = nil
		c.sent = 0
		c.hold = false
		for _, o := range c.pending {
			o.endOff = 0
		}
		op.endOff = len(data)
		if len(it.Cuts) > 0 {
			c.cuts = append([]int(nil), it.Cuts...)
		}
		if it.NoReply {
			c.sendOp = nil
		} else {
			c.sendOp = op
			c.pending = append(c.pending, op)
		}
		c.pos++
		w.logf("C c%d send #%d %s", c.idx, op.Idx, argSummary(it))
		w.deliver(c)
	case "adv":
		w.logf("C c%d adv %d", c.idx, it.N)
		w.fault("clock-advance")
		time.Sleep(time.Duration(it.N))
		c.pos++
	case "connect":
		if c.conn == nil {
			w.connect(c)
		}
		c.pos++
	case "close", "reset":
		if c.conn != nil && !c.cliClosed {
			c.conn.cliClose(it.Op == "reset")
			c.cliClosed = true
			w.fault("client-" + it.Op)
			if len(c.pending) > 0 {
				w.fault("client-close-inflight")
			}
			// the application is gone: whatever the server still writes is never read
			for _, op := range c.pending {
				op.Lost = true
				w.logf("R c%d #%d lost (client closed)", c.idx, op.Idx)
			}
			c.pending = nil
			c.sendbuf = nil
		}
		w.logf("C c%d %s", c.idx, it.Op)
		c.pos++
	case "reconnect":
		if c.conn != nil && !c.cliClosed {
			c.conn.cliClose(false)
		}
		for _, op := range c.pending {
			op.Lost = true
		}
		c.pending = nil
		c.conn = nil
		c.cliClosed = false
		c.eof = false
		c.recv = nil
		c.bounds = nil
		c.sendbuf = nil
		w.logf("C c%d reconnect", c.idx)
		w.connect(c)
		c.pos++
	case "barrier", "await-blocked", "await-idle":
		w.logf("C c%d %s %d", c.idx, it.Op, it.N)
		c.pos++
	case "stop-reading":
		if c.conn != nil {
			c.conn.setOutLimit(int(it.N))
			w.fault("client-stops-reading")
		}
		c.pos++
	default:
		if strings.HasPrefix(it.Op, "emu-") || it.Op == "crash-restart" {
			w.adminOp(c, it)
			return
		}
		panic("unknown op " + it.Op)
	}
}

func argSummary(it *Item) string {
	if len(it.Raw) > 0 {
		return fmt.Sprintf("raw:%dB", len(it.Raw))
	}
	var sb strings.Builder
	for i, a := range it.Args {
		if i > 0 {
			sb.WriteByte(' ')
		}
		if len(a) > 24 {
			fmt.Fprintf(&sb, "%q..(%d)", string(a[:12]), len(a))
		} else {
			fmt.Fprintf(&sb, "%q", string(a))
		}
		if i >= 6 {
			sb.WriteString(" ...")
			break
		}
	}
	return sb.String()
}

func (w *World) connect(c *simClient) bool {
	inst := w.emus[c.plan.Emu]
	port := 7000 + c.plan.Emu
	if inst != nil {
		port = inst.port
	}
	addr := fmt.Sprintf(":%d", port)
	w.nconn++
	c.connGen++
	conn := newConn(w.nconn, addr, fmt.Sprintf("10.0.0.%d:%d", c.idx+1, 40000+w.nconn), &w.step)
	conn.yield = func(site string) { w.sched.park(nil, site) }
	w.allConns = append(w.allConns, conn)
	if !w.net.dial(addr, conn) {
		w.logf("C c%d connect-refused", c.idx)
		return false
	}
	c.conn = conn
	c.connInst = inst
	c.everConn = true
	c.cliClosed = false
	c.eof = false
	w.logf("C c%d connect", c.idx)
	return true
}

func (w *World) deliver(c *simClient) {
	n := len(c.sendbuf)
	if len(c.cuts) > 0 {
		// scripted cut points (offsets from the start of the request)
		for len(c.cuts) > 0 && c.cuts[0] <= c.sent {
			c.cuts = c.cuts[1:]
		}
		if len(c.cuts) > 0 && c.cuts[0]-c.sent < n {
			n = c.cuts[0] - c.sent
			w.fault("fragmented-delivery")
		}
	} else if w.plan.Knobs.Frag && n > 1 {
		// fragment sizes: biased to small pieces, sometimes the rest
		if n > 2048 && c.sent >= 64 {
			// the body of a large value: coarse pieces (tiny cuts are spent on
			// header lines and frame boundaries, where the parser has decisions to make)
			n = min(n, 300+w.tape.Next(9000))
		} else {
			switch w.tape.Next(4) {
			case 0:
				// whole remainder
			case 1:
				n = 1
			case 2:
				n = 1 + w.tape.Next(min(n, 8))
			default:
				n = 1 + w.tape.Next(min(n, 4096))
			}
		}
		if n < len(c.sendbuf) {
			w.fault("fragmented-delivery")
		}
	}
	readCap := 0
	if w.plan.Knobs.ShortReads && w.tape.Next(3) == 0 {
		readCap = 1 + w.tape.Next(16)
	}
	frag := c.sendbuf[:n]
	c.sent += n
	c.sendbuf = c.sendbuf[n:]
	if len(c.sendbuf) == 0 {
		c.sendbuf = nil
		c.sendOp = nil
	}
	w.logf("C c%d deliver %dB cap=%d", c.idx, n, readCap)
	c.conn.cliDeliver(frag, readCap)
	if w.plan.Knobs.Frag && len(c.sendbuf) > 0 && len(c.cuts) == 0 {
		for _, o := range c.pending {
			if o.endOff <= c.sent {
				// a complete command (and perhaps the start of the next) is with the
				// server: the client may wait for its reply before it sends the rest
				if w.tape.Next(3) == 0 {
					c.hold = true
					w.fault("held-until-reply")
					w.logf("C c%d hold", c.idx)
				}
				break
			}
		}
	}
}

func (w *World) adminOp(c *simClient, it *Item) {
	i := int(it.N)
	var f func()
	switch it.Op {
	case "emu-new":
		persist := ""
		if it.S == "persist" {
			persist = filepath.Join(w.dir, fmt.Sprintf("snap%d", i))
			if i == 0 {
				persist = filepath.Join(w.dir, "snap")
			}
		}
		f = func() { w.emuNew(i, persist) }
	case "emu-start":
		f = func() { w.emus[i].eng.Start(); w.emus[i].started = true }
	case "emu-term":
		f = func() { w.emus[i].eng.RequestTermination() }
	case "emu-wait":
		inst := w.emus[i]
		f = func() { inst.eng.WaitForTermination(); inst.closed = true; inst.closedStep = w.step }
	case "emu-close":
		inst := w.emus[i]
		f = func() { inst.eng.Close(); inst.closed = true; inst.closedStep = w.step }
	case "emu-sethook":
		// the public SetHook API, called by the test that owns the emulator while
		// its clients are active; the hook passes every command through
		inst := w.emus[i]
		answer := it.S == "answer"
		f = func() {
			inst.eng.SetHook(func(cmd string, args map[string]any) (bool, any, error) {
				if answer && cmd == "echo" {
					// (C15) the hook answers some ECHOs itself, with values that
					// only RESP3 can carry natively
					switch m, _ := args["message"].(string); m {
					case "hook:map":
						return true, map[string]any{"pi": 3.25, "ok": true, "n": 5, "l": []any{1.5, map[string]any{"x": false}, "s"}}, nil
					case "hook:double":
						return true, 2.5, nil
					case "hook:bool":
						return true, true, nil
					case "hook:set":
						return true, map[any]struct{}{"a": {}, "b": {}}, nil
					case "hook:set2":
						// members that only RESP3 has types for
						return true, map[any]struct{}{1.5: {}, true: {}, "gamma": {}, int64(3): {}}, nil
					case "hook:map2":
						return true, map[string]any{"x": 0.25, "y": []any{false, 1.5}, "z": map[any]struct{}{2.5: {}}}, nil
					case "hook:list":
						return true, []any{true, 0.5, map[string]any{"k": 1.25}}, nil
					}
				}
				return false, nil, nil
			})
		}
	default:
		panic("unknown admin op " + it.Op)
	}
	var aw *adminWorker
	for _, a := range w.admins {
		if !a.busy.Load() {
			aw = a
			break
		}
	}
	if aw == nil {
		panic("no free admin worker")
	}
	w.fault(it.Op)
	w.logf("C c%d %s %d", c.idx, it.Op, it.N)
	c.busy = true
	done := &atomic.Bool{}
	c.busyDone = done
	aw.busy.Store(true)
	aw.work <- func() { f(); done.Store(true) }
}

// harvest moves server output into the clients' receive buffers and matches
// complete replies to the commands in flight.
func (w *World) harvest() {
	var tmp []chunk
	for _, c := range w.clients {
		if c.conn == nil {
			continue
		}
		tmp = c.conn.cliTake(tmp[:0])
		if c.cliClosed {
			tmp = tmp[:0]
		}
		for _, ch := range tmp {
			c.recv = noraceAppend(c.recv, ch.data)
			c.bounds = append(c.bounds, bound{end: len(c.recv), step: ch.step})
		}
		for len(c.recv) > 0 && !c.malformed {
			v, n, err := ParseValue(c.recv)
			if err != nil {
				c.malformed = true
				w.viol = &Violation{Oracle: "frame", Fp: "frame:malformed-reply", Step: w.step,
					Msg: fmt.Sprintf("client %d: server output is not well-formed RESP: %q (next command in flight: %s)", c.idx, clip(c.recv, 120), pendingSummary(c))}
				return
			}
			if n == 0 {
				break
			}
			// the step at which the last byte of this value was written
			var st int64
			for _, b := range c.bounds {
				if b.end >= n {
					st = b.step
					break
				}
			}
			raw := append([]byte(nil), c.recv[:n]...)
			c.recv = c.recv[n:]
			nb := c.bounds[:0]
			for _, b := range c.bounds {
				if b.end > n {
					nb = append(nb, bound{end: b.end - n, step: b.step})
				}
			}
			c.bounds = nb
			if v.K == KPush {
				continue
			}
			if len(c.pending) == 0 && strings.HasPrefix(c.plan.Name, "attacker-raw") {
				// replies to garbage are allowed (and not required)
				continue
			}
			if len(c.pending) == 0 {
				c.extra = append(c.extra, v)
				w.viol = &Violation{Oracle: "frame", Fp: "frame:unsolicited-reply", Step: w.step,
					Msg: fmt.Sprintf("client %d received a reply that answers no command: %s", c.idx, v.String())}
				return
			}
			op := c.pending[0]
			c.pending = c.pending[1:]
			op.Reply, op.Raw, op.Return, op.TReturn = v, raw, st, w.Now()
			if op.wasBlocked && (v.K == KArray || v.K == KBulk) {
				w.probe("blocked-then-served")
			}
			w.stats.Replies++
			w.idleAdv = 0
			w.logf("R c%d #%d %s", c.idx, op.Idx, clipS(v.Canon(), 60))
			if v := w.onReply(op); v != nil {
				w.viol = v
				return
			}
			if op.Item.Tag == "scanloop" && op.Reply.K == KArray && len(op.Reply.A) == 2 && w.viol == nil {
				cur := op.Reply.A[0].S
				if op.Reply.A[0].K == KInt {
					cur = strconv.FormatInt(op.Reply.A[0].I, 10)
				}
				if cur != "0" && c.loops < int(op.Item.N) {
					// the iteration goes on: the same script item is sent again with the new cursor
					c.loops++
					c.pos = op.Idx
				} else {
					c.loops = 0
				}
			}
			if w.plan.Knobs.Turns {
				// no two commands of a turn-taking history execute at the same
				// instant, so "deadline == now" never has to be decided
				time.Sleep(time.Microsecond)
			}
		}
		if !c.eof {
			_, srvClosed, _, _, _ := c.conn.state()
			if srvClosed {
				c.eof = true
				for _, op := range c.pending {
					op.Lost = true
					w.logf("R c%d #%d lost (server closed)", c.idx, op.Idx)
					if v := w.onReply(op); v != nil {
						w.viol = v
						return
					}
				}
				c.pending = nil
				c.sendbuf = nil
			}
		}
	}
}

func (w *World) onReply(op *Op) *Violation {
	if w.chk == nil {
		return nil
	}
	return w.chk.OnReply(w, op)
}

func pendingSummary(c *simClient) string {
	if len(c.pending) == 0 {
		return "none"
	}
	return argSummary(c.pending[0].Item)
}

func clip(b []byte, n int) []byte {
	if len(b) > n {
		return b[:n]
	}
	return b
}

func clipS(s string, n int) string {
	if len(s) > n {
		return s[:n] + "..."
	}
	return s
}

func (w *World) teardown() {
	for _, cn := range w.allConns {
		if n := cn.splitCount(); n > 0 {
			if w.stats.Faults == nil {
				w.stats.Faults = map[string]int{}
			}
			w.stats.Faults["reply-write-split"] += n
		}
	}
	// everything passes through from now on; real mutexes do their own job
	w.sched.releaseAll()
	for _, c := range w.clients {
		if c.conn != nil {
			c.conn.cliClose(false)
		}
	}
	for _, aw := range w.admins {
		close(aw.work)
	}
	for _, inst := range w.emus {
		if inst != nil {
			eng := inst.eng
			go eng.RequestTermination()
		}
	}
	redisemu.SimForceUnblockAll()
	// let goroutines drain (fake time)
	for i := 0; i < 50; i++ {
		time.Sleep(10 * time.Millisecond)
		synctest.Wait()
	}
}

// panicFrame extracts "<function> <error text class>" for fingerprints.
func panicFrame(stack string, value string) string {
	lines := strings.Split(stack, "\n")
	fn := "?"
	for i, ln := range lines {
		if strings.HasPrefix(ln, "github.com/jimsnab/go-redisemu.") && !strings.Contains(ln, "simRecover") {
			fn = strings.TrimPrefix(ln, "github.com/jimsnab/go-redisemu.")
			if j := strings.LastIndexByte(fn, '('); j > 0 {
				fn = fn[:j]
			}
			_ = i
			break
		}
	}
	cls := value
	if i := strings.IndexAny(cls, "0123456789["); i > 0 {
		cls = strings.TrimSpace(cls[:i])
	}
	if len(cls) > 60 {
		cls = cls[:60]
	}
	return fn + "|" + cls
}

func trimStack(stack string) string {
	lines := strings.Split(stack, "\n")
	var out []string
	for i := 0; i < len(lines); i++ {
		if strings.HasPrefix(lines[i], "github.com/jimsnab/go-redisemu.") {
			out = append(out, lines[i])
			if i+1 < len(lines) {
				out = append(out, lines[i+1])
			}
		}
		if len(out) >= 12 {
			break
		}
	}
	return strings.Join(out, "\n")
}
