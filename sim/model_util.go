package sim

import "fmt"

func errf(format string, args ...any) error { return fmt.Errorf(format, args...) }
