package sim

import (
	"strconv"
	"time"
)

// writeTable: one representative of every kind of modification the model
// knows (replacing, in place, per type, rename from/onto, expiry set/strip,
// flush), used by the WATCH workloads so that coverage is by counting.
func (g *Gen) watchMod(k string, tk map[mType][]string, i int) [][]string {
	other := g.key()
	mods := [][][]string{
		{{"SET", k, g.val()}},
		{{"DEL", k}},
		{{"APPEND", k, "x"}},
		{{"INCR", k}},
		{{"SETRANGE", k, "1", "z"}},
		{{"LPUSH", k, g.val()}},
		{{"RPUSH", k, g.val()}},
		{{"LPOP", k}},
		{{"RPOP", k}},
		{{"LSET", k, "0", g.val()}},
		{{"LINSERT", k, "BEFORE", "e0", g.val()}},
		{{"LTRIM", k, "1", "-1"}},
		{{"LREM", k, "0", "e0"}},
		{{"HSET", k, "f0", g.val()}},
		{{"HSET", k, "fnew", g.val()}},
		{{"HDEL", k, "f0"}},
		{{"HINCRBY", k, "f0", "1"}},
		{{"SADD", k, "mnew"}},
		{{"SREM", k, "m0"}},
		{{"SMOVE", k, other, "m0"}},
		{{"SMOVE", other, k, "m0"}},
		{{"RENAME", k, other}},
		{{"RENAME", other, k}},
		{{"COPY", other, k, "REPLACE"}},
		{{"EXPIRE", k, "100"}},
		{{"PERSIST", k}},
		{{"GETEX", k, "EX", "100"}},
		{{"GETDEL", k}},
		{{"LMOVE", k, other, "LEFT", "RIGHT"}},
		{{"LMOVE", other, k, "LEFT", "RIGHT"}},
		{{"LMOVE", other, k, "RIGHT", "LEFT"}},
		// (a source list of its own, so that the push onto k really happens)
		{{"RPUSH", "auxl", "x9"}, {"RPOPLPUSH", "auxl", k}},
		{{"RPUSH", "auxl", "x9"}, {"LMOVE", "auxl", k, "LEFT", "LEFT"}},
		{{"RPUSH", "auxl", "x9"}, {"LMOVE", "auxl", k, "RIGHT", "RIGHT"}},
		{{"HINCRBYFLOAT", k, "fnew2", "1.5"}},
		{{"HINCRBYFLOAT", k, "f0", "0.5"}},
		{{"SETBIT", k, "3", "1"}},
		{{"BITFIELD", k, "SET", "u8", "0", "200"}},
		{{"SUNIONSTORE", k, other}},
		{{"FLUSHDB"}},
		{{"FLUSHALL"}},
		{{"MSET", k, g.val(), other, g.val()}},
		// a name that comes and goes again (the key looks the same afterwards)
		{{"SET", k, g.val()}, {"FLUSHDB"}},
		{{"RPUSH", k, g.val()}, {"FLUSHALL"}},
		{{"FLUSHDB"}, {"SADD", k, "m9"}, {"DEL", k}},
		{{"DEL", k}, {"SET", k, g.val()}, {"DEL", k}},
		{{"DEL", k}, {"HSET", k, "f0", "1"}, {"RENAME", k, other}},
		{{"FLUSHALL"}, {"SET", k, g.val()}, {"FLUSHALL"}},
		{{"SETBITX"}}, // unknown command: not a modification
		// reads and failing writes: must NOT count as modifications
		{{"GET", k}},
		{{"TYPE", k}},
		{{"LRANGE", k, "0", "-1"}},
		{{"EXISTS", k}},
		{{"TTL", k}},
		{{"INCRBY", k, "notanumber"}},
		{{"LSET", k, "99", "x"}},
		{{"HINCRBY", k, "f1", "1"}},
		{{"SADD", k, "m0"}},
		{{"SREM", k, "mabsent"}},
		{{"PERSIST", other}},
		{{"UNLINK", k}},
	}
	return mods[i%len(mods)]
}

// genTxPlan: transaction programs for C09 (MULTI/EXEC discipline) and C10
// (WATCH). Clients take turns, so the reference model decides every reply.
func genTxPlan(prop string, seed uint64, thorough bool) *Plan {
	g := newGen(seed, 3)
	g.keys = []string{"k0", "k1", "k2", "k3"}[:2+g.r.IntN(3)]
	p := &Plan{Prop: prop, Seed: seed, Class: "turns", Knobs: Knobs{Turns: true, Dump: true, RandSeed: int64(seed), MaxSteps: 60000}}
	p.Knobs.Frag = g.chance(3)
	p.Knobs.Sticky = 50
	tk := map[mType][]string{}
	types := []mType{tString, tList, tHash, tSet}
	var pro []Item
	for i, k := range g.keys {
		t := types[(i+int(seed))%4]
		if g.chance(5) {
			continue // leave the key missing
		}
		tk[t] = append(tk[t], k)
		switch t {
		case tString:
			pro = append(pro, cmdItem("SET", k, strconv.Itoa(g.r.IntN(50))))
		case tList:
			pro = append(pro, cmdItem("RPUSH", k, "e0", "e1", g.val()))
		case tHash:
			pro = append(pro, cmdItem("HSET", k, "f0", "1", "f1", g.val()))
		case tSet:
			pro = append(pro, cmdItem("SADD", k, "m0", "m1", "m2"))
		}
		if g.chance(4) {
			pro = append(pro, cmdItem("PEXPIRE", k, "500"))
		}
	}
	pro = append(pro, Item{Op: "barrier", N: 1})
	p.Clients = append(p.Clients, Client{Name: "setup", Items: pro})
	nc := 1 + g.r.IntN(3)
	for c := 0; c < nc; c++ {
		g.client = c + 1
		items := []Item{{Op: "barrier", N: 1}}
		add := func(a ...string) { items = append(items, cmdItem(a...)) }
		ntx := 1 + g.r.IntN(4)
		selected := false
		for t := 0; t < ntx; t++ {
			// optional WATCH phase
			if prop == "C10" || g.chance(3) {
				nk := 1 + g.r.IntN(2)
				a := []string{"WATCH"}
				for i := 0; i < nk; i++ {
					a = append(a, g.key())
				}
				add(a...)
				if g.chance(8) {
					add("UNWATCH")
				}
				if g.chance(6) {
					add("WATCH", g.key())
				}
				if g.chance(6) {
					// the transaction runs in another database than the one the
					// keys were watched in (the other connections keep writing there)
					add("SELECT", g.pick("1", "2"))
					selected = true
				}
			}
			// things between WATCH and MULTI, by this client
			for i := 0; i < g.r.IntN(3); i++ {
				if prop == "C10" && g.chance(2) {
					for _, m := range g.watchMod(g.key(), tk, g.r.IntN(1000)) {
						add(m...)
					}
				} else {
					add(g.concCmd(tk)...)
				}
			}
			if g.chance(12) {
				items = append(items, Item{Op: "adv", N: int64(600 * time.Millisecond)})
			}
			switch g.r.IntN(14) {
			case 0:
				add("EXEC") // without MULTI
				continue
			case 1:
				add("DISCARD") // without MULTI
				continue
			}
			add("MULTI")
			nq := g.r.IntN(5)
			for i := 0; i < nq; i++ {
				switch g.r.IntN(16) {
				case 0:
					add("MULTI") // nested
				case 1:
					add("WATCH", g.key()) // inside MULTI
				case 2:
					add("NOSUCHCMD", "x") // rejected while queueing
				case 3:
					add("GET") // bad arity: rejected while queueing
				case 4:
					add("INCR", firstOr(tk[tList], g.key())) // runtime error: wrong type
				case 5:
					add("SET", g.key(), "9223372036854775807")
					add("INCR", g.keys[0]) // may overflow / wrong type at run time
				case 6:
					add("BLPOP", "nosuchlist", g.pick("0", "1", "0.5")) // must not block inside EXEC
				case 7:
					add("BLMOVE", "nosuchlist", g.key(), "LEFT", "RIGHT", "0")
				case 8:
					add("UNWATCH")
				case 9:
					add("SELECT", g.pick("0", "1", "1")) // queued like anything else; effective from its place in the queue
				default:
					add(g.concCmd(tk)...)
				}
			}
			if g.chance(8) {
				add("DISCARD")
			} else {
				add("EXEC")
			}
			// the connection must be back in normal mode
			if g.chance(2) {
				add(g.concCmd(tk)...)
			}
			if selected && g.chance(2) {
				add("SELECT", "0")
				selected = false
			}
		}
		if g.chance(3) {
			add("EXEC")
		}
		items = append(items, Item{Op: "barrier", N: 2})
		p.Clients = append(p.Clients, Client{Items: items})
	}
	p.Clients[0].Items = append(p.Clients[0].Items, Item{Op: "barrier", N: 2})
	p.Clients = append(p.Clients, observation(g.keys, 2))
	return p
}

func firstOr(l []string, d string) string {
	if len(l) > 0 {
		return l[0]
	}
	return d
}
