package sim

import "math"

func init() {
	reg("sadd", -3, true, func(m *Model, s *Sess, a []string, _ bool) Expect {
		o, e := m.setObj(s, a[1])
		if e != nil {
			return *e
		}
		if o == nil {
			o = &mObj{T: tSet, Z: map[string]struct{}{}}
			m.set(s, a[1], o)
		}
		n := int64(0)
		for _, x := range a[2:] {
			if _, ok := o.Z[x]; !ok {
				o.Z[x] = struct{}{}
				n++
			}
		}
		if n > 0 {
			m.modified(s, a[1])
		}
		return eInt(n)
	})
	reg("srem", -3, true, func(m *Model, s *Sess, a []string, _ bool) Expect {
		o, e := m.setObj(s, a[1])
		if e != nil {
			return *e
		}
		if o == nil {
			return eInt(0)
		}
		n := int64(0)
		for _, x := range a[2:] {
			if _, ok := o.Z[x]; ok {
				delete(o.Z, x)
				n++
			}
		}
		if n > 0 {
			m.modified(s, a[1])
			if len(o.Z) == 0 {
				m.del(s, a[1])
			}
		}
		return eInt(n)
	})
	reg("scard", 2, false, func(m *Model, s *Sess, a []string, _ bool) Expect {
		o, e := m.setObj(s, a[1])
		if e != nil {
			return *e
		}
		if o == nil {
			return eInt(0)
		}
		return eInt(int64(len(o.Z)))
	})
	reg("sismember", 3, false, func(m *Model, s *Sess, a []string, _ bool) Expect {
		o, e := m.setObj(s, a[1])
		if e != nil {
			return *e
		}
		if o != nil {
			if _, ok := o.Z[a[2]]; ok {
				return eInt(1)
			}
		}
		return eInt(0)
	})
	reg("smismember", -3, false, func(m *Model, s *Sess, a []string, _ bool) Expect {
		o, e := m.setObj(s, a[1])
		if e != nil {
			return *e
		}
		v := Value{K: KArray}
		for _, x := range a[2:] {
			i := int64(0)
			if o != nil {
				if _, ok := o.Z[x]; ok {
					i = 1
				}
			}
			v.A = append(v.A, Value{K: KInt, I: i})
		}
		return Expect{V: v}
	})
	reg("smembers", 2, false, func(m *Model, s *Sess, a []string, _ bool) Expect {
		o, e := m.setObj(s, a[1])
		if e != nil {
			return *e
		}
		if o == nil {
			return eBulkArr(nil)
		}
		return eUnordered(sortedKeys(o.Z))
	})
	reg("smove", 4, true, func(m *Model, s *Sess, a []string, _ bool) Expect {
		src := m.get(s, a[1])
		dst := m.get(s, a[2])
		if src == nil {
			if dst != nil && dst.T != tSet {
				// Redis answers 0 here (source looked at first); tolerate WRONGTYPE too
				return eAlt(eInt(0), eWrongType())
			}
			return eInt(0)
		}
		if src.T != tSet {
			return eWrongType()
		}
		if dst != nil && dst.T != tSet {
			return eWrongType()
		}
		_, has := src.Z[a[3]]
		if a[1] == a[2] {
			if has {
				return eInt(1)
			}
			return eInt(0)
		}
		if !has {
			return eInt(0)
		}
		delete(src.Z, a[3])
		m.modified(s, a[1])
		if len(src.Z) == 0 {
			m.del(s, a[1])
		}
		if dst == nil {
			dst = &mObj{T: tSet, Z: map[string]struct{}{}}
			m.set(s, a[2], dst)
		}
		if _, ok := dst.Z[a[3]]; !ok {
			dst.Z[a[3]] = struct{}{}
			m.modified(s, a[2])
		}
		return eInt(1)
	})
	reg("srandmember", -2, false, func(m *Model, s *Sess, a []string, _ bool) Expect {
		if len(a) > 3 {
			return eArgErr()
		}
		hasCount := len(a) == 3
		var cnt int64
		if hasCount {
			c, ok := parseInt(a[2])
			if !ok || c == math.MinInt64 {
				return eArgErr()
			}
			cnt = c
		}
		o, e := m.setObj(s, a[1])
		if e != nil {
			return *e
		}
		if !hasCount {
			if o == nil {
				return eNil()
			}
			z := copySet(o.Z)
			return ePred("a member of the set", func(got Value) error {
				if got.K != KBulk {
					return errf("not a bulk string")
				}
				if _, ok := z[got.S]; !ok {
					return errf("not a member")
				}
				return nil
			})
		}
		if o == nil {
			return eBulkArr(nil)
		}
		z := copySet(o.Z)
		return ePred("random members of the set", func(got Value) error {
			if got.K != KArray && got.K != KSet {
				return errf("not an array")
			}
			want := cnt
			if cnt >= 0 {
				if want > int64(len(z)) {
					want = int64(len(z))
				}
			} else {
				want = -cnt
			}
			if int64(len(got.A)) != want {
				return errf("expected %d members, got %d", want, len(got.A))
			}
			seen := map[string]bool{}
			for _, x := range got.A {
				if _, ok := z[x.S]; !ok || x.K != KBulk {
					return errf("%s is not a member", x.String())
				}
				if cnt >= 0 && seen[x.S] {
					return errf("member %q returned twice for a positive count", x.S)
				}
				seen[x.S] = true
			}
			return nil
		})
	})
	algebra := func(op string, store bool) func(m *Model, s *Sess, a []string, _ bool) Expect {
		return func(m *Model, s *Sess, a []string, _ bool) Expect {
			keys := a[1:]
			dst := ""
			if store {
				dst = a[1]
				keys = a[2:]
			}
			res, e := m.setAlgebra(s, op, keys)
			if e != nil {
				if op == "inter" && m.missingBeforeWrongType(s, keys) {
					// Redis versions differ on whether a missing operand ends
					// SINTER* before a later operand's type is looked at
					alt := eAlt(*e, eBulkArr(nil))
					if store {
						alt = eAlt(*e, eInt(0))
						alt.Resolve = func(got Value) {
							if !got.IsErr() {
								m.del(s, dst)
							}
						}
					}
					return alt
				}
				return *e
			}
			if !store {
				return eUnordered(sortedKeys(res))
			}
			if len(res) == 0 {
				m.del(s, dst)
				return eInt(0)
			}
			m.set(s, dst, &mObj{T: tSet, Z: res})
			return eInt(int64(len(res)))
		}
	}
	reg("sinter", -2, false, algebra("inter", false))
	reg("sunion", -2, false, algebra("union", false))
	reg("sdiff", -2, false, algebra("diff", false))
	reg("sinterstore", -3, true, algebra("inter", true))
	reg("sunionstore", -3, true, algebra("union", true))
	reg("sdiffstore", -3, true, algebra("diff", true))
	reg("sintercard", -3, false, func(m *Model, s *Sess, a []string, _ bool) Expect {
		nk, ok := parseInt(a[1])
		if !ok || nk <= 0 {
			return eArgErr()
		}
		if int64(len(a)) < 2+nk {
			return eArgErr()
		}
		keys := a[2 : 2+nk]
		rest := a[2+nk:]
		limit := int64(0)
		if len(rest) > 0 {
			if len(rest) != 2 || upper(rest[0]) != "LIMIT" {
				return eArgErr()
			}
			l, ok := parseInt(rest[1])
			if !ok || l < 0 {
				return eArgErr()
			}
			limit = l
		}
		res, e := m.setAlgebra(s, "inter", keys)
		if e != nil {
			if m.missingBeforeWrongType(s, keys) {
				return eAlt(*e, eInt(0))
			}
			return *e
		}
		n := int64(len(res))
		if limit > 0 && n > limit {
			n = limit
		}
		return eInt(n)
	})
}

func copySet(z map[string]struct{}) map[string]struct{} {
	c := make(map[string]struct{}, len(z))
	for k := range z {
		c[k] = struct{}{}
	}
	return c
}

func (m *Model) setObj(s *Sess, key string) (*mObj, *Expect) {
	o := m.get(s, key)
	if o != nil && o.T != tSet {
		e := eWrongType()
		return nil, &e
	}
	return o, nil
}

func (m *Model) setAlgebra(s *Sess, op string, keys []string) (map[string]struct{}, *Expect) {
	sets := make([]map[string]struct{}, len(keys))
	for i, k := range keys {
		o, e := m.setObj(s, k)
		if e != nil {
			return nil, e
		}
		if o != nil {
			sets[i] = o.Z
		} else {
			sets[i] = map[string]struct{}{}
		}
	}
	res := map[string]struct{}{}
	switch op {
	case "union":
		for _, z := range sets {
			for x := range z {
				res[x] = struct{}{}
			}
		}
	case "inter":
		for x := range sets[0] {
			in := true
			for _, z := range sets[1:] {
				if _, ok := z[x]; !ok {
					in = false
					break
				}
			}
			if in {
				res[x] = struct{}{}
			}
		}
	case "diff":
		for x := range sets[0] {
			in := false
			for _, z := range sets[1:] {
				if _, ok := z[x]; ok {
					in = true
					break
				}
			}
			if !in {
				res[x] = struct{}{}
			}
		}
	}
	return res, nil
}

func (m *Model) missingBeforeWrongType(s *Sess, keys []string) bool {
	missing := false
	for _, k := range keys {
		o := m.get(s, k)
		if o == nil {
			missing = true
		} else if o.T != tSet && missing {
			return true
		}
	}
	return false
}
