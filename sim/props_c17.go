package sim

import (
	"fmt"
	"strconv"
	"strings"
	"time"
)

// C17: SCAN / HSCAN / SSCAN full iterations under mutation.

func genScanPlan(seed uint64, thorough bool) *Plan {
	g := newGen(seed, 11)
	p := &Plan{Prop: "C17", Seed: seed, Class: "turns", Knobs: Knobs{Turns: true, RandSeed: int64(seed), MaxSteps: 400000, Sticky: 70}}
	if seed%4 == 3 {
		p.Knobs.MaxSteps = 1500000
		p.Knobs.Sticky = 30
	}
	kind := g.pick("scan", "hscan", "sscan")
	p.Note = kind
	size := []int{0, 3, 17, 40, 120, 300, 600}[g.r.IntN(7)]
	if !thorough && size > 300 {
		size = 300
	}
	name := func(i int) string { return "e" + strconv.Itoa(i) }
	// initial population by the setup client, in bulk
	var setup []Item
	bulk := func(from, to int) {
		for i := from; i < to; i += 40 {
			var a []string
			switch kind {
			case "hscan":
				a = []string{"HSET", "coll"}
			case "sscan":
				a = []string{"SADD", "coll"}
			default:
				a = []string{"MSET"}
			}
			for j := i; j < to && j < i+40; j++ {
				switch kind {
				case "hscan":
					a = append(a, name(j), "v"+strconv.Itoa(j))
				case "sscan":
					a = append(a, name(j))
				default:
					a = append(a, name(j), "v")
				}
			}
			setup = append(setup, cmdItem(a...))
		}
	}
	bulk(0, size)
	if g.chance(3) {
		// names made of glob metacharacters, for patterns with escapes
		sp := []string{"e[1]", "e*2", "e?3", "e\\4", "e]5", "e^6"}
		var a []string
		switch kind {
		case "hscan":
			a = []string{"HSET", "coll"}
			for _, n := range sp {
				a = append(a, n, "v")
			}
		case "sscan":
			a = append([]string{"SADD", "coll"}, sp...)
		default:
			a = []string{"MSET"}
			for _, n := range sp {
				a = append(a, n, "v")
			}
		}
		setup = append(setup, cmdItem(a...))
	}
	if kind == "scan" && g.chance(2) {
		// other types in the keyspace for TYPE filtering
		setup = append(setup, cmdItem("RPUSH", "zl", "a"), cmdItem("HSET", "zh", "f", "v"), cmdItem("SADD", "zs", "m"))
	}
	typeBias := false
	if kind == "scan" && g.chance(2) {
		// keys of every type that are gone before the iteration starts but may
		// still be stored: a deadline that has passed, UNLINK
		typeBias = true
		setup = append(setup, cmdItem("SET", "gk0", "v"), cmdItem("RPUSH", "gl0", "a"), cmdItem("HSET", "gh0", "f", "v"), cmdItem("SADD", "gs0", "m"),
			cmdItem("PEXPIRE", "gk0", "20"), cmdItem("PEXPIRE", "gl0", "20"), cmdItem("PEXPIRE", "gh0", "20"), cmdItem("PEXPIRE", "gs0", "20"),
			cmdItem("SET", "uk0", "v"), cmdItem("RPUSH", "ul0", "a"), cmdItem("HSET", "uh0", "f", "v"), cmdItem("SADD", "us0", "m"),
			cmdItem("UNLINK", "uk0", "ul0"), cmdItem("UNLINK", "uh0", "us0"), Item{Op: "adv", N: int64(50 * time.Millisecond)})
		if g.chance(2) {
			// ... and many of them: whatever an implementation does when it meets
			// them during a walk (skip, reclaim) must not disturb the walk
			nd := 20 + g.r.IntN(70)
			ms := []string{"MSET"}
			var un [][]string
			cur := []string{"UNLINK"}
			for i := 0; i < nd; i++ {
				ms = append(ms, "dead"+strconv.Itoa(i), "v")
				cur = append(cur, "dead"+strconv.Itoa(i))
				if len(cur) > 25 {
					un = append(un, cur)
					cur = []string{"UNLINK"}
				}
			}
			if len(cur) > 1 {
				un = append(un, cur)
			}
			setup = append(setup, cmdItem(ms...))
			for _, u := range un {
				setup = append(setup, cmdItem(u...))
			}
		}
	}
	setup = append(setup, Item{Op: "barrier", N: 1})
	// scanner
	scanArgs := func() []string {
		var a []string
		switch kind {
		case "scan":
			a = []string{"SCAN", "$cursor"}
		case "hscan":
			a = []string{"HSCAN", "coll", "$cursor"}
		default:
			a = []string{"SSCAN", "coll", "$cursor"}
		}
		var opts [][]string
		if g.chance(2) {
			opts = append(opts, []string{"COUNT", g.pick("1", "2", "3", "10", "1000")})
		}
		if g.chance(3) {
			opts = append(opts, []string{"MATCH", g.pick("*", "e*", "e1*", "e?", "e[0-4]*", "*7", "nomatch*", "e[^1]*", "", "e[0-9]", "e1[0-9]", "e\\[*", "e\\**", "e\\?3", "e\\\\*", "e[\\]]*", "e[*?]*", "e\\^6", "e[!1]*", "[!e]*", "e[!0-4]*")})
		}
		if kind == "scan" && (g.chance(4) || typeBias && g.chance(2)) {
			opts = append(opts, []string{"TYPE", g.kw(g.pick("string", "list", "hash", "set", "zset"))})
		}
		g.r.Shuffle(len(opts), func(i, j int) { opts[i], opts[j] = opts[j], opts[i] })
		for _, o := range opts {
			a = append(a, o...)
		}
		return a
	}
	scanner := []Item{{Op: "barrier", N: 1}}
	for it := 0; it < 1+g.r.IntN(3); it++ {
		scanner = append(scanner, Item{Args: bs(scanArgs()...), Tag: "scanloop", N: 5000})
	}
	// mutators: insert and delete while the scanner is between calls
	var muts []Client
	nm := g.r.IntN(3)
	next := size
	for m := 0; m < nm; m++ {
		items := []Item{{Op: "barrier", N: 1}}
		for i := 0; i < 2+g.r.IntN(20); i++ {
			switch g.r.IntN(6) {
			case 0, 1:
				// grow: a burst of new elements
				n := 1 + g.r.IntN(60)
				var a []string
				switch kind {
				case "hscan":
					a = []string{"HSET", "coll"}
				case "sscan":
					a = []string{"SADD", "coll"}
				default:
					a = []string{"MSET"}
				}
				for j := 0; j < n; j++ {
					switch kind {
					case "hscan":
						a = append(a, name(next), "v")
					case "sscan":
						a = append(a, name(next))
					default:
						a = append(a, name(next), "v")
					}
					next++
				}
				items = append(items, cmdItem(a...))
			case 2, 3:
				// shrink: delete a burst (forces the table to halve eventually)
				n := 1 + g.r.IntN(80)
				var a []string
				switch kind {
				case "hscan":
					a = []string{"HDEL", "coll"}
				case "sscan":
					a = []string{"SREM", "coll"}
				default:
					a = []string{"DEL"}
				}
				for j := 0; j < n; j++ {
					a = append(a, name(g.r.IntN(max(next, 1))))
				}
				items = append(items, cmdItem(a...))
			case 4:
				// re-add something that was there
				e := name(g.r.IntN(max(next, 1)))
				switch kind {
				case "hscan":
					items = append(items, cmdItem("HSET", "coll", e, "w"))
				case "sscan":
					items = append(items, cmdItem("SADD", "coll", e))
				default:
					items = append(items, cmdItem("SET", e, "w"))
				}
			default:
				if g.chance(3) {
					// everything goes at once: an iteration under way has to end all the same
					switch kind {
					case "scan":
						items = append(items, cmdItem(g.pick("FLUSHDB", "FLUSHALL")))
					default:
						items = append(items, cmdItem(g.pick("DEL", "UNLINK"), "coll"))
					}
				} else {
					items = append(items, cmdItem("PING"))
				}
			}
		}
		muts = append(muts, Client{Name: "mutator", Items: items})
	}
	if seed%4 == 3 {
		// class shrink: a few stable elements in a table blown up by a burst of
		// temporary ones; while the scanner walks it a few elements per call,
		// the temporaries are removed and further add/remove churn makes the
		// table halve again and again under the outstanding cursor
		p.Class = "shrink"
		stable := 3 + g.r.IntN(10)
		temps := []int{10, 20, 40}[g.r.IntN(3)]
		cycles := 300 + g.r.IntN(1200)
		setup = setup[:0]
		size, next = 0, 0
		bulk(0, stable+temps)
		setup = append(setup, Item{Op: "barrier", N: 1})
		scanner = []Item{{Op: "barrier", N: 1}}
		for it := 0; it < cycles/4; it++ {
			a := []string{"SCAN", "$cursor"}
			if kind == "hscan" {
				a = []string{"HSCAN", "coll", "$cursor"}
			} else if kind == "sscan" {
				a = []string{"SSCAN", "coll", "$cursor"}
			}
			a = append(a, "COUNT", g.pick("1", "2", "3"))
			scanner = append(scanner, Item{Args: bs(a...), Tag: "scanloop", N: 5000})
		}
		rm := func(from, to int) []string {
			var a []string
			switch kind {
			case "hscan":
				a = []string{"HDEL", "coll"}
			case "sscan":
				a = []string{"SREM", "coll"}
			default:
				a = []string{"DEL"}
			}
			for j := from; j < to; j++ {
				a = append(a, name(j))
			}
			return a
		}
		add := func(from, to int) []string {
			var a []string
			switch kind {
			case "hscan":
				a = []string{"HSET", "coll"}
			case "sscan":
				a = []string{"SADD", "coll"}
			default:
				a = []string{"MSET"}
			}
			for j := from; j < to; j++ {
				a = append(a, name(j))
				if kind != "sscan" {
					a = append(a, "v")
				}
			}
			return a
		}
		items := []Item{{Op: "barrier", N: 1}}
		lazy := kind == "scan" && g.chance(2)
		for i := stable; i < stable+temps; i += 40 {
			r := rm(i, min(i+40, stable+temps))
			if lazy {
				// the temporaries are unlinked: gone for every command, but an
				// implementation may keep them stored until it meets them again
				r[0] = "UNLINK"
			}
			items = append(items, cmdItem(r...))
		}
		base := stable + temps
		// the table only halves after more removals than half its size: churn
		for i := 0; i < cycles; i++ {
			items = append(items, cmdItem(add(base, base+2)...), cmdItem(rm(base, base+2)...))
		}
		muts = []Client{{Name: "mutator", Items: items}}
	}
	p.Clients = append([]Client{{Name: "setup", Items: setup}, {Name: "scanner", Items: scanner}}, muts...)
	return p
}

type scanIter struct {
	always, ever map[string]bool
	returned     map[string]bool
	calls        int
	callsQuiet   int
	rehash       bool
	lastBuckets  int
	argv         []string
}

type scanChecker struct {
	seq       *seqChecker
	kind      string
	iter      *scanIter
	completed int
	rehashed  int
	maxB      int
	shrunk    int // times the table got smaller while an iteration was under way
}

func newScanChecker(p *Plan) Checker {
	return &scanChecker{seq: newSeqChecker(p).(*seqChecker), kind: p.Note}
}

func (c *scanChecker) OnStep(w *World) *Violation { return nil }
func (c *scanChecker) Final(w *World) *Violation  { return nil }
func (c *scanChecker) Extra() map[string]int {
	return map[string]int{"iterations-completed": c.completed, "rehash-during-iteration": c.rehashed, "max-buckets": c.maxB, "shrink-during-iteration": c.shrunk}
}

// current: the collection the scanner iterates, as the model sees it now.
func (c *scanChecker) current() map[string]bool {
	out := map[string]bool{}
	db := c.seq.m.dbs[0]
	switch c.kind {
	case "scan":
		for k := range db {
			out[k] = true
		}
	case "hscan":
		if o := db["coll"]; o != nil && o.T == tHash {
			for f := range o.H {
				out[f] = true
			}
		}
	case "sscan":
		if o := db["coll"]; o != nil && o.T == tSet {
			for m := range o.Z {
				out[m] = true
			}
		}
	}
	return out
}

func (c *scanChecker) OnReply(w *World, op *Op) *Violation {
	if v := c.seq.OnReply(w, op); v != nil {
		return v
	}
	if op.Lost || len(op.Item.Args) == 0 {
		return nil
	}
	st, _ := checkInvariantsStats(w)
	if st > c.maxB {
		c.maxB = st
	}
	cur := c.current()
	if c.iter != nil {
		// every command (scanner's or mutator's) is a step of the running iteration
		for k := range c.iter.always {
			if !cur[k] {
				delete(c.iter.always, k)
			}
		}
		for k := range cur {
			c.iter.ever[k] = true
		}
		if st != c.iter.lastBuckets {
			c.iter.rehash = true
			if st < c.iter.lastBuckets {
				c.shrunk++
			}
			c.iter.lastBuckets = st
		}
	}
	if op.Item.Tag != "scanloop" {
		return nil
	}
	argv := strs(op.Item.Args)
	bad := func(fp, format string, a ...any) *Violation {
		return &Violation{Oracle: "scan", Step: w.step, Fp: "scan:" + c.kind + ":" + fp, Msg: fmt.Sprintf(format, a...)}
	}
	if op.Reply.IsErr() {
		return bad("error", "%s answered %s", fmtArgs(argv), op.Reply.String())
	}
	if op.Reply.K != KArray || len(op.Reply.A) != 2 || op.Reply.A[1].K != KArray {
		return bad("shape", "%s answered %s, expected [cursor, [elements]]", fmtArgs(argv), clipS(op.Reply.String(), 100))
	}
	cursor := op.Reply.A[0].S
	if op.Reply.A[0].K == KInt {
		cursor = strconv.FormatInt(op.Reply.A[0].I, 10)
	}
	if c.iter == nil {
		// this call started an iteration (cursor 0 was sent): the sets refer to the
		// state just before this call, which is the state after the previous command;
		// being generous, take the state now for 'always' and both for 'ever'
		c.iter = &scanIter{always: map[string]bool{}, ever: map[string]bool{}, returned: map[string]bool{}, lastBuckets: st, argv: argv}
		for k := range cur {
			c.iter.always[k] = true
			c.iter.ever[k] = true
		}
		for k := range w.scanBefore {
			c.iter.ever[k] = true
			if !cur[k] {
				delete(c.iter.always, k)
			}
		}
	}
	it := c.iter
	it.calls++
	els := op.Reply.A[1].A
	if c.kind == "hscan" {
		if len(els)%2 != 0 {
			return bad("shape", "HSCAN returned an odd number of elements")
		}
		for i := 0; i+1 < len(els); i += 2 {
			it.returned[els[i].S] = true
		}
	} else {
		for _, e := range els {
			it.returned[e.S] = true
		}
	}
	if cursor != "0" {
		if it.calls > 4000 {
			return bad("no-termination", "a full iteration of %s did not end after %d calls", fmtArgs(it.argv), it.calls)
		}
		return nil
	}
	// iteration complete
	c.completed++
	if it.rehash {
		c.rehashed++
	}
	pattern, typ := "*", "" // no MATCH option = everything; an empty pattern matches only the empty name
	for i := 0; i+1 < len(it.argv); i++ {
		switch strings.ToUpper(it.argv[i]) {
		case "MATCH":
			pattern = it.argv[i+1]
		case "TYPE":
			typ = strings.ToLower(it.argv[i+1])
		}
	}
	matches := func(k string) bool {
		if !globMatch(pattern, k) {
			return false
		}
		if typ != "" && c.kind == "scan" {
			o := c.seq.m.dbs[0][k]
			if o == nil || o.T.String() != typ {
				return false
			}
		}
		return true
	}
	for k := range it.always {
		if matches(k) && !it.returned[k] {
			c.iter = nil
			return bad("missed", "full iteration %s (%d calls%s): element %q was present the whole time and matches, but was never returned", fmtArgs(it.argv), it.calls, rehashNote(it), k)
		}
	}
	for k := range it.returned {
		if !it.ever[k] {
			c.iter = nil
			return bad("invented", "full iteration %s: element %q was returned but was absent during the whole iteration", fmtArgs(it.argv), k)
		}
		if !globMatch(pattern, k) {
			c.iter = nil
			return bad("filter", "full iteration %s returned %q, which does not match the pattern", fmtArgs(it.argv), k)
		}
	}
	c.iter = nil
	return nil
}

func rehashNote(it *scanIter) string {
	if it.rehash {
		return ", table resized meanwhile"
	}
	return ""
}

// checkInvariantsStats: largest bucket array currently in use.
func checkInvariantsStats(w *World) (int, error) {
	if v := checkInvariants(w, "scan"); v != nil {
		return w.stats.MaxBuckets, fmt.Errorf("%s", v.Msg)
	}
	return w.curBuckets, nil
}
