package sim

import (
	"fmt"
	"strconv"
	"strings"
	"time"

	redisemu "github.com/jimsnab/go-redisemu"
)

// genEndPlan: C12 - how blocks end. Classes: timeout (exact simulated time),
// unblock (CLIENT UNBLOCK on a client known to be blocked / known to be idle),
// close (blocked client closes or is killed, later pushes must survive),
// race (everything at tape-chosen moments, consistency oracles only).
func genEndPlan(seed uint64, thorough bool) *Plan {
	g := newGen(seed, 6)
	p := &Plan{Prop: "C12", Seed: seed, Knobs: Knobs{RandSeed: int64(seed), MaxSteps: 80000, IdleCap: 2000}}
	p.Knobs.Sticky = []int{0, 30, 60}[g.r.IntN(3)]
	p.Knobs.Stall = []int{0, 20, 20, 40}[g.r.IntN(4)]
	p.Knobs.PCT = []int{0, 0, 0, 2, 3}[g.r.IntN(5)]
	p.Knobs.UnlockYield = g.chance(2)
	bcmd := func(k, to string) []string {
		switch g.r.IntN(5) {
		case 0:
			return []string{"BLPOP", k, to}
		case 1:
			return []string{"BRPOP", k, "other", to}
		case 2:
			return []string{"BLMOVE", k, "dst", "LEFT", "RIGHT", to}
		case 3:
			return []string{"BRPOPLPUSH", k, "dst", to}
		default:
			return []string{"BLMPOP", to, "1", k, "LEFT"}
		}
	}
	switch g.r.IntN(9) / 2 {
	case 4:
		// (1 run in 9) inside MULTI a blocking command never blocks: an empty list
		// is a nil element of the EXEC reply, at once, whatever the timeout says
		p.Class = "multi"
		items := []Item{cmdItem("MULTI")}
		nq := 1 + g.r.IntN(4)
		for i := 0; i < nq; i++ {
			if g.chance(5) {
				items = append(items, cmdItem("RPUSH", g.pick("q", "other"), "x"+strconv.Itoa(i)))
				continue
			}
			items = append(items, Item{Args: bs(bcmd(g.pick("q", "q2", "other"), g.pick("0", "0", "1", "0.01"))...), Tag: "queued-block"})
		}
		items = append(items, Item{Args: bs("EXEC"), Tag: "exec-blocks"}, cmdItem("PING"))
		by := []Item{cmdItem("LLEN", "q"), cmdItem("RPUSH", "q3", "y"), cmdItem("LLEN", "q")}
		p.Clients = []Client{{Name: "blocker", Items: items}, {Name: "bystander", Items: by}}
	case 0:
		p.Class = "timeout"
		touts := []string{"0.001", "0.05", "0.5", "1", "1.5", "2.25", "10", "0"}
		to := touts[g.r.IntN(len(touts))]
		tf, _ := strconv.ParseFloat(to, 64)
		d := time.Duration(tf * float64(time.Second))
		delta := d / 10
		if delta < 100*time.Microsecond {
			delta = 100 * time.Microsecond
		}
		rounds := 1 + g.r.IntN(3)
		var items []Item
		var clock []Item
		for r := 0; r < rounds; r++ {
			it := Item{Args: bs(bcmd("q", to)...), Tag: "timed:" + to}
			items = append(items, it)
			if g.chance(2) {
				items = append(items, cmdItem("PING"))
			}
			clock = append(clock, Item{Op: "await-blocked", N: 0})
			if to == "0" {
				clock = append(clock, Item{Op: "adv", N: int64(1e6 * float64(time.Second)), Tag: "long"}, Item{Op: "await-idle"})
				// end this block with a push so that the next round can start
				clock = append(clock, cmdItem("RPUSH", "q", "x"+strconv.Itoa(r)), Item{Op: "await-idle"})
			} else if d >= 50*time.Millisecond && g.chance(2) {
				// half way through, the waiter is woken for an element somebody
				// else takes (push and pop in one EXEC, or a push that a
				// competitor pops first): it goes back to waiting, and the
				// deadline stays where it was
				clock = append(clock, Item{Op: "adv", N: int64(d / 2), Tag: "half"}, Item{Op: "await-idle"})
				clock = append(clock, cmdItem("MULTI"), cmdItem("RPUSH", "q", "stolen"+strconv.Itoa(r)), cmdItem(g.pick("LPOP", "RPOP"), "q"), cmdItem("EXEC"), Item{Op: "await-idle"})
				clock = append(clock, Item{Op: "adv", N: int64(d - d/2 - delta), Tag: "before"}, Item{Op: "await-idle"},
					Item{Op: "adv", N: int64(2 * delta), Tag: "after"}, Item{Op: "await-idle"})
			} else {
				clock = append(clock, Item{Op: "adv", N: int64(d - delta), Tag: "before"}, Item{Op: "await-idle"},
					Item{Op: "adv", N: int64(2 * delta), Tag: "after"}, Item{Op: "await-idle"})
			}
		}
		p.Clients = []Client{{Name: "blocker", Items: items}, {Name: "clock", Items: clock}}
	case 1:
		p.Class = "unblock"
		// target blocks; admin unblocks it (TIMEOUT/ERROR/default), also tries while it is idle
		var t, a []Item
		a = append(a, Item{Op: "barrier", N: 1})
		t = append(t, cmdItem("CLIENT", "ID"), Item{Op: "barrier", N: 1})
		rounds := 1 + g.r.IntN(3)
		for r := 0; r < rounds; r++ {
			mode := g.pick("", "TIMEOUT", "ERROR")
			t = append(t, Item{Args: bs(bcmd("q", g.pick("0", "100"))...), Tag: "unblocked:" + mode})
			a = append(a, Item{Op: "await-blocked", N: 0})
			if g.chance(3) {
				// (connections are addressed by id, whatever database either side has selected)
				a = append(a, cmdItem("SELECT", g.pick("1", "0", "7")))
			}
			ub := []string{"CLIENT", "UNBLOCK", "$id:0"}
			if mode != "" {
				ub = append(ub, mode)
			}
			a = append(a, Item{Args: bs(ub...), Tag: "unblock-blocked"}, Item{Op: "await-idle"})
			// now the target is idle (or answering PING): unblocking it must report 0
			t = append(t, cmdItem("PING"))
			if g.chance(2) {
				a = append(a, Item{Args: bs("CLIENT", "UNBLOCK", "$id:0"), Tag: "unblock-idle"}, Item{Op: "await-idle"})
			}
			if g.chance(3) {
				a = append(a, Item{Args: bs("CLIENT", "UNBLOCK", "99999"), Tag: "unblock-nobody"})
			}
		}
		// a bystander that is blocked all along must stay blocked
		by := []Item{cmdItem("BLPOP", "bystander", "0")}
		p.Clients = []Client{{Name: "target", Items: t}, {Name: "admin", Items: a}, {Name: "bystander", Items: by}}
	case 2:
		p.Class = "close"
		// a blocked client closes / is reset / is killed; later pushes must stay or go to live consumers
		how := g.pick("close", "reset", "kill")
		if g.avoid["peer-close-while-blocked"] {
			how = "kill"
		}
		t := []Item{cmdItem("CLIENT", "ID"), {Op: "barrier", N: 1}, {Args: bs(bcmd("q", "0")...), Tag: "doomed"}}
		a := []Item{{Op: "barrier", N: 1}, {Op: "await-blocked", N: 0}}
		if how == "kill" && g.chance(2) {
			// the kill may land anywhere in the life of the command: before it is
			// dispatched, between its first look at the list and its registration,
			// before it has captured the connection, or while it waits
			a = []Item{{Op: "barrier", N: 1}}
		}
		switch how {
		case "kill":
			a = append(a, cmdItem("CLIENT", "KILL", "ID", "$id:0"))
		default:
			t = append(t, Item{Op: how, Now: true})
			a = append(a, Item{Op: "barrier", N: 2})
			t = append(t, Item{Op: "barrier", N: 2, Now: true})
		}
		a = append(a, Item{Op: "await-idle"})
		np := 1 + g.r.IntN(3)
		for i := 0; i < np; i++ {
			g.client = 7
			a = append(a, cmdItem(g.pick("LPUSH", "RPUSH"), "q", g.val()))
		}
		a = append(a, Item{Op: "await-idle"})
		cl := []Client{{Name: "doomed", Items: t, Depth: 2}, {Name: "admin", Items: a}}
		if g.chance(2) {
			// a live consumer that blocks after the doomed one
			cl = append(cl, Client{Name: "live", Items: []Item{{Op: "await-blocked", N: 0}, cmdItem("BLPOP", "q", "0")}})
		}
		p.Clients = cl
	default:
		p.Class = "race"
		// everything at tape-chosen moments
		var t, a, r, pu []Item
		t = append(t, cmdItem("CLIENT", "ID"), Item{Op: "barrier", N: 1})
		a = append(a, Item{Op: "barrier", N: 1})
		r = append(r, Item{Op: "barrier", N: 1})
		pu = append(pu, Item{Op: "barrier", N: 1})
		n := 1 + g.r.IntN(3)
		for i := 0; i < n; i++ {
			t = append(t, Item{Args: bs(bcmd("q", g.pick("0", "0.01", "0.3", "100"))...), Tag: "raced"})
			if g.chance(2) {
				t = append(t, cmdItem("PING"))
			}
			if g.chance(3) {
				t = append(t, cmdItem("CLIENT", "INFO"))
			}
		}
		for i := 0; i < 1+g.r.IntN(4); i++ {
			// mostly the blocking client, sometimes the connection that inspects itself with CLIENT INFO
			ub := []string{"CLIENT", "UNBLOCK", g.pick("$id:0", "$id:0", "$id:2")}
			if g.chance(2) {
				ub = append(ub, g.pick("TIMEOUT", "ERROR"))
			}
			a = append(a, Item{Args: bs(ub...), Tag: "unblock-raced"})
		}
		for i := 0; i < 1+g.r.IntN(4); i++ {
			r = append(r, cmdItem("CLIENT", g.pick("INFO", "INFO", "LIST")))
		}
		for i := 0; i < g.r.IntN(3); i++ {
			g.client = 8
			pu = append(pu, cmdItem("RPUSH", "q", g.val()))
		}
		p.Knobs.RandAdv = 6
		p.Clients = []Client{{Name: "target", Items: t}, {Name: "admin", Items: a}, {Name: "reader", Items: r}, {Name: "pusher", Items: pu}}
	}
	// final observation once nothing moves
	obs := observation([]string{"q", "dst", "other"}, 9)
	obs.Items = append([]Item{{Op: "await-idle"}}, obs.Items[1:]...)
	p.Clients = append(p.Clients, obs)
	return p
}

type endChecker struct {
	plan   *Plan
	counts map[string]int
}

func newEndChecker(p *Plan) Checker { return &endChecker{plan: p, counts: map[string]int{}} }

func (c *endChecker) OnReply(w *World, op *Op) *Violation { return nil }
func (c *endChecker) OnStep(w *World) *Violation          { return nil }
func (c *endChecker) Extra() map[string]int               { return c.counts }

func (c *endChecker) Final(w *World) *Violation {
	if w.stats.EndReason == "step-budget" {
		return nil
	}
	bad := func(fp, format string, a ...any) *Violation {
		return &Violation{Oracle: "block-end", Step: w.step, Fp: "block-end:" + fp, Msg: fmt.Sprintf(format, a...) + "\n" + historyText(w)}
	}
	isNull := func(v Value) bool { return v.K == KNil }
	if c.plan.Class == "multi" {
		for _, op := range w.history {
			if op.Item.Tag == "exec-blocks" || len(op.Item.Args) > 0 && op.Item.Tag == "" {
				if op.Return < 0 && !op.Lost {
					return bad("blocked-inside-multi", "%s was never answered: a blocking command inside MULTI/EXEC must not block (run end: %s)", fmtArgs(strs(op.Item.Args)), w.stats.EndReason)
				}
			}
			if op.Item.Tag == "exec-blocks" && op.Return >= 0 {
				if op.Reply.K != KArray {
					return bad("exec-reply", "EXEC answered %s", clipS(op.Reply.String(), 100))
				}
				if op.TReturn-op.TInvoke > 5*time.Millisecond {
					return bad("blocked-inside-multi", "EXEC with queued blocking commands took %v of simulated time", op.TReturn-op.TInvoke)
				}
			}
		}
		return nil
	}
	// index ops
	var pushed, consumed []string
	for _, op := range w.history {
		if len(op.Item.Args) == 0 {
			continue
		}
		name := strings.ToLower(string(op.Item.Args[0]))
		tag := op.Item.Tag
		switch {
		case strings.HasPrefix(tag, "timed:"):
			to, _ := strconv.ParseFloat(strings.TrimPrefix(tag, "timed:"), 64)
			d := time.Duration(to * float64(time.Second))
			if to == 0 {
				// must not end by itself: it ends only through the push that follows the long advance
				if op.Return >= 0 && isNull(op.Reply) {
					return bad("timeout0-ended", "client %d: %s has timeout 0 but completed with a null reply after %v", op.Client, fmtArgs(strs(op.Item.Args)), op.TReturn-op.TInvoke)
				}
				if op.Return >= 0 && op.TReturn-op.TInvoke < time.Duration(1e6*float64(time.Second)) {
					return bad("timeout0-early", "client %d: %s (timeout 0) completed after only %v, before anything was pushed", op.Client, fmtArgs(strs(op.Item.Args)), op.TReturn-op.TInvoke)
				}
				c.counts["timeout0-waited"]++
				break
			}
			if op.Return < 0 {
				return bad("timeout-never", "client %d: %s did not complete although %v of simulated time passed", op.Client, fmtArgs(strs(op.Item.Args)), w.Now()-op.TInvoke)
			}
			if !isNull(op.Reply) {
				return bad("timeout-reply", "client %d: %s timed out with %s instead of a null reply", op.Client, fmtArgs(strs(op.Item.Args)), op.Reply.String())
			}
			el := op.TReturn - op.TInvoke
			delta := d / 10
			if delta < 100*time.Microsecond {
				delta = 100 * time.Microsecond
			}
			if el < d {
				return bad("timeout-early", "client %d: %s completed after %v, earlier than its timeout %v", op.Client, fmtArgs(strs(op.Item.Args)), el, d)
			}
			if el > d+delta+time.Millisecond {
				return bad("timeout-late", "client %d: %s completed after %v; its timeout %v had passed by more than the %v the clock was moved beyond it", op.Client, fmtArgs(strs(op.Item.Args)), el, d, delta)
			}
			c.counts["timeouts-exact"]++
		case name == "ping" && op.Return >= 0:
			if op.Reply.K != KSimple || op.Reply.S != "PONG" {
				return bad("reuse", "client %d: PING after a block ended answered %s", op.Client, op.Reply.String())
			}
			c.counts["reuse-ok"]++
		case name == "ping" && op.Return < 0 && !op.Lost:
			// the connection must process further commands once its block ended
			prev := prevOp(w, op)
			if prev != nil && prev.Return >= 0 {
				return bad("reuse-stuck", "client %d: the block ended (%s) but the following PING was never answered", op.Client, prev.Reply.String())
			}
		}
		if (name == "lpush" || name == "rpush") && op.Return >= 0 && op.Reply.K == KInt {
			for _, e := range op.Item.Args[2:] {
				pushed = append(pushed, string(e))
			}
		}
		if op.Return >= 0 && isBlockingCmd(name) {
			switch {
			case op.Reply.K == KArray && len(op.Reply.A) == 2 && op.Reply.A[1].K == KBulk:
				consumed = append(consumed, op.Reply.A[1].S)
			case op.Reply.K == KArray && len(op.Reply.A) == 2 && op.Reply.A[1].K == KArray:
				for _, e := range op.Reply.A[1].A {
					consumed = append(consumed, e.S)
				}
			case op.Reply.K == KBulk && name != "blmove" && name != "brpoplpush":
				consumed = append(consumed, op.Reply.S)
			}
		}
	}
	// CLIENT UNBLOCK: decided from the history, not from the script
	for _, u := range w.history {
		if len(u.Item.Args) < 3 || !strings.EqualFold(string(u.Item.Args[0]), "client") || !strings.EqualFold(string(u.Item.Args[1]), "unblock") {
			continue
		}
		if u.Return < 0 {
			if !u.Lost {
				return bad("unblock-hangs", "client %d: CLIENT UNBLOCK never returned", u.Client)
			}
			continue
		}
		if u.Reply.K != KInt || (u.Reply.I != 0 && u.Reply.I != 1) {
			return bad("unblock-reply-shape", "CLIENT UNBLOCK answered %s", u.Reply.String())
		}
		target := -1
		if a := string(u.Item.Args[2]); strings.HasPrefix(a, "$id:") {
			target, _ = strconv.Atoi(a[4:])
		}
		mode := "TIMEOUT"
		if len(u.Item.Args) > 3 {
			mode = strings.ToUpper(string(u.Item.Args[3]))
		}
		if target < 0 {
			if u.Reply.I != 0 && !openAvoid["unblock-reply-not-blocked"] {
				return bad("unblock-reply-idle", "CLIENT UNBLOCK of an id no connection has answered %s, expected 0", u.Reply.String())
			}
			c.counts["unblock-idle"]++
			continue
		}
		// what was the target doing during [u.Invoke, u.Return]?
		overlapping := 0
		var sure *Op
		for _, b := range w.history {
			if b.Client != target || len(b.Item.Args) == 0 {
				continue
			}
			if b.Invoke > u.Return || (b.Return >= 0 && b.Return < u.Invoke) {
				continue
			}
			overlapping++
			if isBlockingCmd(string(b.Item.Args[0])) && b.wasBlocked && b.BlockedStep < u.Invoke && c.noOtherEnder(w, b, u) {
				sure = b
			}
		}
		// An UNBLOCK that answered 1 while the target sat in its blocking
		// select, with nothing that could have woken it in between, must end
		// that command - whatever else (further unblocks, timers) happens later.
		if u.Reply.I == 1 && (w.stats.EndReason == "done" || w.stats.EndReason == "quiescent") {
			for _, b := range w.history {
				if b.Client != target || len(b.Item.Args) == 0 || !isBlockingCmd(string(b.Item.Args[0])) {
					continue
				}
				if !b.wasBlocked || b.BlockedStep >= u.Invoke || b.Return >= 0 || b.Lost || c.targetGone(w, target) {
					continue
				}
				if c.wakerBetween(w, b, b.BlockedStep, u.Return) {
					continue
				}
				return bad("unblock-no-effect", "client %d sat in the blocking select of %s since step %d and nothing touched its keys; CLIENT UNBLOCK ran [%d,%d] and answered 1, but the command never completed", target, fmtArgs(strs(b.Item.Args)), b.BlockedStep, u.Invoke, u.Return)
			}
		}
		switch {
		case overlapping == 0:
			// open known finding KF-unblock-reply-not-blocked: this clause is only
			// enforced in the sentinel run (the emulator answers 1 for any existing id)
			if u.Reply.I != 0 && !openAvoid["unblock-reply-not-blocked"] {
				return bad("unblock-reply-idle", "client %d was not executing any command while CLIENT UNBLOCK ran [%d,%d], yet it answered %s, expected 0", target, u.Invoke, u.Return, u.Reply.String())
			}
			c.counts["unblock-idle"]++
		case sure != nil && overlapping == 1:
			if u.Reply.I != 1 {
				return bad("unblock-reply-blocked", "client %d sat in %s (blocked since step %d, nothing else could end it) when CLIENT UNBLOCK ran [%d,%d], yet it answered %s, expected 1", target, fmtArgs(strs(sure.Item.Args)), sure.BlockedStep, u.Invoke, u.Return, u.Reply.String())
			}
			if sure.Return < 0 {
				return bad("unblock-no-effect", "CLIENT UNBLOCK answered 1 but client %d's %s never completed", target, fmtArgs(strs(sure.Item.Args)))
			}
			if mode == "ERROR" {
				if !sure.Reply.IsErr() || sure.Reply.ErrClass() != "UNBLOCKED" {
					return bad("unblock-error-reply", "client %d's %s was unblocked with ERROR but replied %s, expected an UNBLOCKED error", target, fmtArgs(strs(sure.Item.Args)), sure.Reply.String())
				}
			} else if !isNull(sure.Reply) {
				return bad("unblock-null-reply", "client %d's %s was unblocked (TIMEOUT) but replied %s, expected null", target, fmtArgs(strs(sure.Item.Args)), sure.Reply.String())
			}
			c.counts["unblocked"]++
		default:
			c.counts["unblock-racy"]++
		}
	}
	// A block that ends without an element needs a cause that lies inside the
	// command's own lifetime: its timeout has elapsed, or a CLIENT UNBLOCK /
	// CLIENT KILL aimed at it (or at everybody) overlapped it. An unblock that
	// was over before the command was sent must not end it.
	for _, b := range w.history {
		if len(b.Item.Args) == 0 || !isBlockingCmd(string(b.Item.Args[0])) || b.Return < 0 || b.Lost {
			continue
		}
		if !(isNull(b.Reply) || (b.Reply.IsErr() && b.Reply.ErrClass() == "UNBLOCKED")) {
			continue
		}
		argv := strs(b.Item.Args)
		to := argv[len(argv)-1]
		if strings.EqualFold(argv[0], "blmpop") {
			to = argv[1]
		}
		tf, err := strconv.ParseFloat(to, 64)
		if err != nil {
			continue
		}
		if tf > 0 && b.TReturn-b.TInvoke >= time.Duration(tf*float64(time.Second)) {
			continue // timed out
		}
		caused := false
		for _, u := range w.history {
			if len(u.Item.Args) < 2 || !strings.EqualFold(string(u.Item.Args[0]), "client") {
				continue
			}
			sub := strings.ToLower(string(u.Item.Args[1]))
			if sub != "unblock" && sub != "kill" {
				continue
			}
			if u.Invoke <= b.Return && (u.Return < 0 || u.Return >= b.Invoke) {
				caused = true
			}
		}
		for _, o := range w.history {
			if o.Client == b.Client && len(o.Item.Args) > 0 && o.Invoke < b.Invoke && o.Idx < b.Idx {
				n := strings.ToLower(string(o.Item.Args[0]))
				if n == "multi" {
					caused = true // (inside MULTI the command is only queued; replies come with EXEC)
				}
			}
		}
		if c.targetGone(w, b.Client) {
			caused = true
		}
		if !caused {
			return bad("ended-without-cause", "client %d: %s ended with %s after %v of simulated time: its timeout had not elapsed and no CLIENT UNBLOCK or CLIENT KILL overlapped it [%d,%d]", b.Client, fmtArgs(argv), b.Reply.String(), b.TReturn-b.TInvoke, b.Invoke, b.Return)
		}
	}
	// bystander must still be blocked
	for _, op := range w.history {
		if len(op.Item.Args) > 1 && string(op.Item.Args[1]) == "bystander" && op.Return >= 0 {
			return bad("bystander", "client %d was blocked on another key and nobody unblocked it, yet its command completed with %s", op.Client, op.Reply.String())
		}
	}
	// conservation: every pushed element is in a reply to a live consumer or still stored
	if len(pushed) > 0 {
		left := map[string]int{}
		for _, e := range consumed {
			left[e]++
		}
		dump := redisemu.SimDumpDb(w.Emu(0), 0)
		for _, k := range []string{"q", "dst", "other"} {
			if o, ok := dump[k]; ok {
				for _, e := range o.List {
					left[string(e)]++
				}
			}
		}
		for _, e := range pushed {
			if left[e] == 0 {
				fp := "element-lost"
				for _, cl := range w.clients {
					if cl.cliClosed {
						for _, o := range w.history {
							if o.Client == cl.idx && o.Lost && len(o.Item.Args) > 0 && isBlockingCmd(string(o.Item.Args[0])) {
								fp = "element-lost:peer-closed-while-blocked"
							}
						}
					}
				}
				return bad(fp, "element %q was pushed and acknowledged but is neither in a reply to a live consumer nor in a list any more (a closed/killed/unblocked client swallowed it)", e)
			}
			if left[e] > 1 {
				return bad("element-duplicated", "element %q was delivered or stored %d times", e, left[e])
			}
		}
		c.counts["conserved"] += len(pushed)
	}
	// race class: consistency between CLIENT UNBLOCK replies and the target's replies
	if c.plan.Class == "race" {
		ones := 0
		for _, op := range w.history {
			if op.Item.Tag == "unblock-raced" && op.Return >= 0 && op.Reply.K == KInt && op.Reply.I == 1 {
				ones++
			}
		}
		ended := 0
		for _, op := range w.history {
			if op.Item.Tag == "raced" && op.Return >= 0 {
				if op.Reply.IsErr() && op.Reply.ErrClass() == "UNBLOCKED" {
					ended++
					if ones == 0 {
						return bad("unblocked-without-unblock", "client %d: %s ended with an UNBLOCKED error although no CLIENT UNBLOCK answered 1", op.Client, fmtArgs(strs(op.Item.Args)))
					}
				}
			}
		}
		c.counts["race-unblock-ones"] += ones
		c.counts["race-unblocked-errors"] += ended
	}
	return nil
}

func prevOp(w *World, op *Op) *Op {
	var prev *Op
	for _, o := range w.history {
		if o == op {
			return prev
		}
		if o.Client == op.Client {
			prev = o
		}
	}
	return nil
}

// noOtherEnder: nothing but CLIENT UNBLOCK u can have ended blocking op b by
// the time u returned: no push or list-creating command, no other unblock/kill,
// no close of b's connection, and b's own timeout not yet due.
func (c *endChecker) noOtherEnder(w *World, b, u *Op) bool {
	argv := strs(b.Item.Args)
	to := argv[len(argv)-1]
	if strings.EqualFold(argv[0], "blmpop") {
		to = argv[1]
	}
	if f, err := strconv.ParseFloat(to, 64); err == nil && f > 0 {
		if b.TInvoke+time.Duration(f*float64(time.Second)) <= w.Now()+time.Second {
			return false
		}
	}
	for _, o := range w.history {
		if o == u || o == b || len(o.Item.Args) == 0 {
			continue
		}
		// what was over before b was sent, or was sent after b had been
		// answered, cannot have ended b
		if (o.Return >= 0 && o.Return < b.Invoke) || (b.Return >= 0 && o.Invoke > b.Return) {
			continue
		}
		switch strings.ToLower(string(o.Item.Args[0])) {
		case "lpush", "rpush", "lpushx", "rpushx", "lmove", "rpoplpush", "rename", "renamenx", "copy", "sort", "exec", "client":
			if strings.EqualFold(string(o.Item.Args[0]), "client") && len(o.Item.Args) > 1 {
				sub := strings.ToLower(string(o.Item.Args[1]))
				if sub != "unblock" && sub != "kill" {
					continue
				}
			}
			return false
		}
	}
	for _, cl := range w.clients {
		if cl.idx == b.Client && (cl.cliClosed || cl.eof) {
			return false
		}
	}
	return true
}

func (c *endChecker) targetGone(w *World, target int) bool {
	for _, cl := range w.clients {
		if cl.idx == target && (cl.cliClosed || cl.eof) {
			return true
		}
	}
	return false
}

// wakerBetween: did a command that can wake or end a blocked client (pushes,
// moves, key-creating commands, EXEC, CLIENT KILL) overlap steps [from, to]?
func (c *endChecker) wakerBetween(w *World, b *Op, from, to int64) bool {
	for _, o := range w.history {
		if o == b || len(o.Item.Args) == 0 {
			continue
		}
		if (o.Return >= 0 && o.Return < from) || o.Invoke > to {
			continue
		}
		switch strings.ToLower(string(o.Item.Args[0])) {
		case "lpush", "rpush", "lpushx", "rpushx", "lmove", "rpoplpush", "blmove", "brpoplpush", "rename", "renamenx", "copy", "sort", "exec", "linsert":
			return true
		case "client":
			if len(o.Item.Args) > 1 && strings.EqualFold(string(o.Item.Args[1]), "kill") {
				return true
			}
		}
	}
	return false
}

// sentinelPlans: fixed plans that reach an open known finding directly.
var sentinelPlans = map[string]func() *Plan{
	"c12-unblock-idle-client": func() *Plan {
		p := &Plan{Prop: "C12", Class: "unblock", Knobs: Knobs{MaxSteps: 20000, IdleCap: 2000, Sticky: 100}}
		p.Clients = []Client{
			{Name: "target", Items: []Item{cmdItem("CLIENT", "ID"), {Op: "barrier", N: 1}}},
			{Name: "admin", Items: []Item{{Op: "barrier", N: 1}, {Op: "await-idle"}, {Args: bs("CLIENT", "UNBLOCK", "$id:0"), Tag: "unblock-idle"}, {Op: "await-idle"}}},
		}
		return p
	},
	"c12-peer-close-while-blocked": func() *Plan {
		p := &Plan{Prop: "C12", Class: "close", Knobs: Knobs{MaxSteps: 20000, IdleCap: 2000, Sticky: 100}}
		p.Clients = []Client{
			{Name: "doomed", Depth: 2, Items: []Item{{Args: bs("BLPOP", "q", "0"), Tag: "doomed"}, {Op: "barrier", N: 1, Now: true}, {Op: "close", Now: true}, {Op: "barrier", N: 2, Now: true}}},
			{Name: "admin", Items: []Item{{Op: "await-blocked", N: 0}, {Op: "barrier", N: 1}, {Op: "barrier", N: 2}, {Op: "await-idle"}, cmdItem("RPUSH", "q", "e1"), {Op: "await-idle"}}},
		}
		return p
	},
}
