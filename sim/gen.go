package sim

// Workload generators. Everything random is drawn from one PCG stream seeded
// by the run's seed; generators only produce inputs whose Redis 7 semantics the
// reference model states with confidence (see DESIGN.md 4.2, 10).

import (
	"fmt"
	"math/rand/v2"
	"strconv"
	"strings"
)

type Gen struct {
	r      *rand.Rand
	keys   []string
	uniq   int
	client int
	// feature mask (swarm): families enabled for this run
	fam map[string]bool
	// avoid lists from known findings (feature names)
	avoid map[string]bool
	big   bool // allow large collections (table growth)
}

// openAvoid: generator features switched off because an open known finding
// (known_findings.jsonl) would otherwise end most runs at the same divergence.
var openAvoid = map[string]bool{"peer-close-while-blocked": true, "unblock-reply-not-blocked": true}

func newGen(seed uint64, stream uint64) *Gen {
	g := &Gen{r: rand.New(rand.NewPCG(seed, stream)), fam: map[string]bool{}, avoid: map[string]bool{}}
	for k := range openAvoid {
		g.avoid[k] = true
	}
	nk := 2 + g.r.IntN(5)
	pool := []string{"k0", "k1", "k2", "k3", "k4", "k5", "key:6", "k 7", "k\r\n8", "", "{k}9", "k[a]", "k*"}
	g.r.Shuffle(len(pool), func(i, j int) { pool[i], pool[j] = pool[j], pool[i] })
	// mostly plain names
	plain := []string{"k0", "k1", "k2", "k3", "k4", "k5"}
	for i := 0; i < nk; i++ {
		if g.r.IntN(6) == 0 {
			g.keys = append(g.keys, pool[i])
		} else {
			g.keys = append(g.keys, plain[i%len(plain)])
		}
	}
	if g.r.IntN(8) == 0 {
		// two names of one hash block's length that differ in a single bit
		g.keys = append(g.keys, "0BCDEFGH", "8BCDEFGH")
	}
	g.keys = dedup(g.keys)
	return g
}

func dedup(a []string) []string {
	seen := map[string]bool{}
	var out []string
	for _, x := range a {
		if !seen[x] {
			seen[x] = true
			out = append(out, x)
		}
	}
	return out
}

func (g *Gen) key() string { return g.keys[g.r.IntN(len(g.keys))] }

func (g *Gen) pick(xs ...string) string { return xs[g.r.IntN(len(xs))] }

func (g *Gen) chance(n int) bool { return g.r.IntN(n) == 0 }

// val returns a fresh, unique value.
func (g *Gen) val() string {
	g.uniq++
	base := fmt.Sprintf("v%d.%d", g.client, g.uniq)
	switch g.r.IntN(24) {
	case 0:
		return base + "\r\n"
	case 1:
		return base + "\x00\xff\xfe"
	case 2:
		return base + strings.Repeat("x", 100+g.r.IntN(300))
	case 3:
		return base + " sp ace"
	case 4:
		return base + "\u00e9\u20ac\U0001F600" // valid multi-byte UTF-8: bytes and characters differ
	}
	return base
}

// member/field/element: small universes so that commands collide
// (a few names are not plain words: format verbs, line breaks, spaces, the empty name)
func (g *Gen) member() string {
	if g.chance(10) {
		return g.pick("m%d", "%", "m\r\n", "", "m 1", "%!s(MISSING)", "0BCDEFGH", "8BCDEFGH", "0BCDEFGH", "8BCDEFGH")
	}
	return "m" + strconv.Itoa(g.r.IntN(8))
}
func (g *Gen) field() string {
	if g.chance(10) {
		return g.pick("f%d", "50% off", "%s", "f\r\n1", "", "f%%g", "0BCDEFGH", "8BCDEFGH", "0BCDEFGH", "8BCDEFGH")
	}
	return "f" + strconv.Itoa(g.r.IntN(6))
}
func (g *Gen) elem() string {
	if g.chance(2) {
		return "e" + strconv.Itoa(g.r.IntN(4)) // duplicates on purpose
	}
	return g.val()
}

var intPool = []int64{0, 1, -1, 2, -2, 3, 5, 10, -10, 100, 1 << 31, -(1 << 31), 1<<31 - 1, 1 << 32, 1<<32 + 1, 1<<62 + 7, -(1<<62 + 7), maxInt64, minInt64, maxInt64 - 1, minInt64 + 1}

func (g *Gen) smallInt() int64 { return int64(g.r.IntN(9)) - 3 }

func (g *Gen) anyInt() string {
	if g.chance(3) {
		return strconv.FormatInt(intPool[g.r.IntN(len(intPool))], 10)
	}
	return strconv.FormatInt(g.smallInt(), 10)
}

// index: list positions incl. out of range
func (g *Gen) index() string {
	switch g.r.IntN(10) {
	case 0:
		return strconv.FormatInt(intPool[g.r.IntN(len(intPool))], 10)
	case 1:
		return g.pick("abc", "", "1.5", "1 ")
	}
	return strconv.Itoa(g.r.IntN(17) - 8)
}

func (g *Gen) count() string {
	switch g.r.IntN(12) {
	case 0:
		return strconv.FormatInt(intPool[g.r.IntN(len(intPool))], 10)
	case 1:
		return g.pick("x", "", "2.0")
	}
	return strconv.Itoa(g.r.IntN(9) - 2)
}

func (g *Gen) kw(s string) string {
	switch g.r.IntN(4) {
	case 0:
		return strings.ToLower(s)
	case 1:
		// mixed case
		b := []byte(strings.ToLower(s))
		for i := range b {
			if g.r.IntN(2) == 0 && b[i] >= 'a' && b[i] <= 'z' {
				b[i] -= 32
			}
		}
		return string(b)
	}
	return s
}

func (g *Gen) cmdName(s string) string { return g.kw(s) }

// ttl operands: sane (valid for Redis and for an int64-ns clock) or absurd (rejected)
func (g *Gen) ttlSeconds() string {
	switch g.r.IntN(12) {
	case 0:
		return g.pick("0", "-1", "-100")
	case 1:
		return g.pick("abc", "", "1.5")
	case 2:
		return g.pick("4294967296", "2147483648", "5000000000")
	}
	return strconv.Itoa(1 + g.r.IntN(200))
}

func (g *Gen) ttlMillis() string {
	switch g.r.IntN(12) {
	case 0:
		return g.pick("0", "-1", "-100")
	case 1:
		return g.pick("abc", "", "1.5")
	case 2:
		return g.pick("4294967296", "2147483648", "5000000000000")
	}
	return strconv.Itoa(1 + g.r.IntN(200000))
}

// absolute timestamps relative to "now" (unix seconds of the simulated clock are ~1.8e9)
func (g *Gen) tsSeconds(nowNs int64) string {
	now := nowNs / 1e9
	switch g.r.IntN(10) {
	case 0:
		return strconv.FormatInt(now-int64(g.r.IntN(1000))-1, 10)
	case 1:
		return g.pick("0", "-5", "abc")
	}
	return strconv.FormatInt(now+1+int64(g.r.IntN(300)), 10)
}

func (g *Gen) tsMillis(nowNs int64) string {
	now := nowNs / 1e6
	switch g.r.IntN(10) {
	case 0:
		return strconv.FormatInt(now-int64(g.r.IntN(100000))-1, 10)
	case 1:
		return g.pick("0", "-5", "abc")
	}
	return strconv.FormatInt(now+1+int64(g.r.IntN(300000)), 10)
}

func (g *Gen) name(s string) string { return g.cmdName(s) }

// ---------------------------------------------------------------- families

func (g *Gen) stringCmd(now int64) []string {
	k := g.key()
	switch g.r.IntN(30) {
	case 0, 1, 2:
		a := []string{g.name("SET"), k, g.strVal()}
		// option matrix, random order
		var opts [][]string
		if g.chance(3) {
			opts = append(opts, []string{g.kw(g.pick("NX", "XX"))})
		}
		if g.chance(20) {
			opts = append(opts, []string{g.kw("NX")}, []string{g.kw("XX")})
		}
		if g.chance(4) {
			opts = append(opts, []string{g.kw("GET")})
		}
		switch g.r.IntN(8) {
		case 0:
			opts = append(opts, []string{g.kw("EX"), g.ttlSeconds()})
		case 1:
			opts = append(opts, []string{g.kw("PX"), g.ttlMillis()})
		case 2:
			opts = append(opts, []string{g.kw("EXAT"), g.tsSeconds(now)})
		case 3:
			opts = append(opts, []string{g.kw("PXAT"), g.tsMillis(now)})
		case 4:
			opts = append(opts, []string{g.kw("KEEPTTL")})
		}
		if g.chance(40) {
			opts = append(opts, []string{"BOGUS"})
		}
		if !g.avoid["option-order"] {
			// known finding KF-option-order: options are kept in the order of
			// the command definition unless a sentinel run asks otherwise
			g.r.Shuffle(len(opts), func(i, j int) { opts[i], opts[j] = opts[j], opts[i] })
		}
		for _, o := range opts {
			a = append(a, o...)
		}
		return a
	case 3:
		return []string{g.name("SETNX"), k, g.strVal()}
	case 4:
		return []string{g.name("SETEX"), k, g.ttlSeconds(), g.strVal()}
	case 5:
		return []string{g.name("PSETEX"), k, g.ttlMillis(), g.strVal()}
	case 6, 7:
		return []string{g.name("GET"), k}
	case 8:
		return []string{g.name("GETSET"), k, g.strVal()}
	case 9:
		return []string{g.name("GETDEL"), k}
	case 10:
		a := []string{g.name("GETEX"), k}
		switch g.r.IntN(7) {
		case 0:
			a = append(a, g.kw("EX"), g.ttlSeconds())
		case 1:
			a = append(a, g.kw("PX"), g.ttlMillis())
		case 2:
			a = append(a, g.kw("EXAT"), g.tsSeconds(now))
		case 3:
			a = append(a, g.kw("PXAT"), g.tsMillis(now))
		case 4:
			a = append(a, g.kw("PERSIST"))
		}
		return a
	case 11:
		a := []string{g.name("MGET")}
		for i := 0; i <= g.r.IntN(4); i++ {
			a = append(a, g.key())
		}
		return a
	case 12, 13:
		a := []string{g.name(g.pick("MSET", "MSETNX", "MSETNX"))}
		for i := 0; i <= g.r.IntN(3); i++ {
			a = append(a, g.key(), g.strVal())
		}
		if g.chance(15) {
			a = append(a, g.key())
		}
		return a
	case 14:
		return []string{g.name("APPEND"), k, g.pick("", g.val(), "7", "0")}
	case 15:
		return []string{g.name("STRLEN"), k}
	case 16, 17:
		return []string{g.name(g.pick("GETRANGE", "SUBSTR")), k, g.index(), g.index()}
	case 18, 19:
		off := g.pick("0", "1", "2", "3", "5", "10", "40", "-1", "-3", "abc", "536870912", "9223372036854775807")
		return []string{g.name("SETRANGE"), k, off, g.pick("", "X", g.val())}
	case 20, 21:
		return []string{g.name(g.pick("INCR", "DECR")), k}
	case 22, 23, 24:
		return []string{g.name(g.pick("INCRBY", "DECRBY")), k, g.anyInt()}
	case 25:
		return []string{g.name("INCRBYFLOAT"), k, g.pick("0.5", "1", "-2.25", "3", "1e3", "abc", "nan", "inf", "-inf", "1e30", "0.1", "")}
	case 26:
		a := []string{g.name("LCS"), k, g.key()}
		switch g.r.IntN(5) {
		case 0:
			a = append(a, g.kw("LEN"))
		case 1:
			a = append(a, g.kw("IDX"))
		case 2:
			a = append(a, g.kw("IDX"), g.kw("MINMATCHLEN"), strconv.Itoa(g.r.IntN(4)), g.kw("WITHMATCHLEN"))
		case 3:
			a = append(a, g.kw("IDX"), g.kw("WITHMATCHLEN"))
		}
		return a
	default:
		// counter-friendly value
		return []string{g.name("SET"), k, g.pick("0", "10", "-5", "9223372036854775806", "-9223372036854775807", "9223372036854775807", "-9223372036854775808", "12x", "3.0", "",
			// decimal strings that are not canonical integers
			"-0", "-007", "-00", "+7", "007", " 7", "7 ")}
	}
}

// strVal: values for strings, incl. short ones that LCS / ranges can chew on
func (g *Gen) strVal() string {
	switch g.r.IntN(8) {
	case 0:
		return g.pick("", "a", "abcabc", "ohmytext", "mynewtext", "0", "10", "-7")
	case 1:
		return strconv.FormatInt(g.smallInt(), 10)
	}
	return g.val()
}

func (g *Gen) listCmd() []string {
	k := g.key()
	elems := func() []string {
		var e []string
		for i := 0; i <= g.r.IntN(3); i++ {
			e = append(e, g.elem())
		}
		return e
	}
	switch g.r.IntN(28) {
	case 0, 1, 2, 3:
		return append([]string{g.name(g.pick("LPUSH", "RPUSH")), k}, elems()...)
	case 4:
		return append([]string{g.name(g.pick("LPUSHX", "RPUSHX")), k}, elems()...)
	case 5, 6:
		a := []string{g.name(g.pick("LPOP", "RPOP")), k}
		if g.chance(2) {
			a = append(a, g.count())
		}
		return a
	case 7:
		return []string{g.name("LLEN"), k}
	case 8, 9:
		return []string{g.name("LINDEX"), k, g.index()}
	case 10, 11:
		return []string{g.name("LRANGE"), k, g.index(), g.index()}
	case 12, 13:
		return []string{g.name("LSET"), k, g.index(), g.val()}
	case 14, 15:
		return []string{g.name("LINSERT"), k, g.kw(g.pick("BEFORE", "AFTER", "BEFORE", "AFTER", "MIDDLE")), g.elem(), g.val()}
	case 16, 17:
		if g.chance(3) {
			return []string{g.name("LREM"), k, g.count(), g.elem()}
		}
		// several equal elements and a count that selects some of them, from either end
		return []string{g.name("LREM"), k, g.pick("-3", "-2", "-2", "-1", "0", "1", "2", "2"), "e" + strconv.Itoa(g.r.IntN(3))}
	case 18, 19:
		return []string{g.name("LTRIM"), k, g.index(), g.index()}
	case 20, 21:
		a := []string{g.name("LPOS"), k, g.elem()}
		var opts [][]string
		if g.chance(2) {
			opts = append(opts, []string{g.kw("RANK"), g.pick("1", "2", "-1", "-2", "0", "3", "x")})
		}
		if g.chance(2) {
			opts = append(opts, []string{g.kw("COUNT"), g.pick("0", "1", "2", "5", "-1", "x")})
		}
		if g.chance(3) {
			opts = append(opts, []string{g.kw("MAXLEN"), g.pick("0", "1", "2", "3", "10", "-1")})
		}
		g.r.Shuffle(len(opts), func(i, j int) { opts[i], opts[j] = opts[j], opts[i] })
		for _, o := range opts {
			a = append(a, o...)
		}
		return a
	case 22, 23:
		dst := g.key()
		if g.chance(3) {
			dst = k
		}
		return []string{g.name("LMOVE"), k, dst, g.kw(g.pick("LEFT", "RIGHT", "LEFT", "RIGHT", "UP")), g.kw(g.pick("LEFT", "RIGHT"))}
	case 24:
		dst := g.key()
		if g.chance(3) {
			dst = k
		}
		return []string{g.name("RPOPLPUSH"), k, dst}
	case 25:
		n := 1 + g.r.IntN(3)
		a := []string{g.name("LMPOP"), g.pick(strconv.Itoa(n), strconv.Itoa(n), strconv.Itoa(n), "0", "-1", "x")}
		for i := 0; i < n; i++ {
			a = append(a, g.key())
		}
		a = append(a, g.kw(g.pick("LEFT", "RIGHT")))
		if g.chance(2) {
			a = append(a, g.kw("COUNT"), g.pick("1", "2", "3", "10", "0", "-1"))
		}
		return a
	case 26:
		// blocking forms with data possibly present; timeout small so that an empty case ends
		switch g.r.IntN(4) {
		case 0:
			return []string{g.name(g.pick("BLPOP", "BRPOP")), k, g.key(), g.pick("0.01", "1", "0.5")}
		case 1:
			return []string{g.name("BLMOVE"), k, g.key(), g.kw(g.pick("LEFT", "RIGHT")), g.kw(g.pick("LEFT", "RIGHT")), "0.01"}
		case 2:
			return []string{g.name("BRPOPLPUSH"), k, g.key(), "0.01"}
		default:
			return []string{g.name("BLMPOP"), "0.01", "2", k, g.key(), g.kw(g.pick("LEFT", "RIGHT")), g.kw("COUNT"), g.pick("1", "2")}
		}
	default:
		return append([]string{g.name("RPUSH"), k}, elems()...)
	}
}

func (g *Gen) hashCmd() []string {
	k := g.key()
	if g.chance(25) {
		// one call over the whole (small) hash, with the filters HSCAN knows
		a := []string{g.name("HSCAN"), k, "0", g.kw("COUNT"), "1000"}
		if g.chance(2) {
			a = append(a, g.kw("MATCH"), g.pick("*", "f*", "f[0-2]", "f[!0]", "", "[!f]*", "f?", "f\\%*", "*%*", "f[^1]"))
		}
		return a
	}
	switch g.r.IntN(24) {
	case 0, 1, 2, 3:
		a := []string{g.name(g.pick("HSET", "HSET", "HMSET")), k}
		n := 1 + g.r.IntN(3)
		if g.big && g.chance(4) {
			n = 20 + g.r.IntN(60)
		}
		for i := 0; i < n; i++ {
			f := g.field()
			if n > 6 {
				f = "bf" + strconv.Itoa(g.r.IntN(400))
			}
			a = append(a, f, g.hval())
		}
		if g.chance(20) {
			a = append(a, g.field())
		}
		return a
	case 4:
		return []string{g.name("HSETNX"), k, g.field(), g.hval()}
	case 5, 6:
		return []string{g.name("HGET"), k, g.field()}
	case 7:
		return []string{g.name("HMGET"), k, g.field(), g.field(), g.field()}
	case 8, 9:
		return []string{g.name(g.pick("HGETALL", "HKEYS", "HVALS")), k}
	case 10:
		return []string{g.name("HLEN"), k}
	case 11:
		return []string{g.name("HEXISTS"), k, g.field()}
	case 12:
		return []string{g.name("HSTRLEN"), k, g.field()}
	case 13, 14, 15:
		a := []string{g.name("HDEL"), k, g.field()}
		if g.big && g.chance(3) {
			for i := 0; i < 40; i++ {
				a = append(a, "bf"+strconv.Itoa(g.r.IntN(400)))
			}
		} else if g.chance(2) {
			a = append(a, g.field(), g.field())
		}
		return a
	case 16, 17, 18:
		return []string{g.name("HINCRBY"), k, g.field(), g.anyInt()}
	case 19:
		return []string{g.name("HINCRBYFLOAT"), k, g.field(), g.pick("0.5", "1", "-2.25", "1e3", "abc", "nan", "inf", "1e30", "1.5e308", "1.5e308", "-1.5e308")}
	case 20, 21, 22:
		a := []string{g.name("HRANDFIELD"), k}
		if g.chance(4) {
			return a
		}
		// (a huge positive count asks for "all of them, each once")
		a = append(a, g.pick("0", "1", "2", "3", "10", "-1", "-3", "-10", "x", "-9223372036854775808", "1000", "9223372036854775807", "4611686018427387904", "4294967296"))
		if g.chance(2) {
			a = append(a, g.kw("WITHVALUES"))
		}
		return a
	default:
		return []string{g.name("HLEN"), k}
	}
}

func btoi(b bool) int {
	if b {
		return 1
	}
	return 0
}

func (g *Gen) hval() string {
	switch g.r.IntN(5) {
	case 0:
		return g.pick("0", "5", "-5", "9223372036854775806", "-9223372036854775807", "9223372036854775807", "-9223372036854775808", "abc", "1.5",
			// decimal strings that are not canonical integers
			"-0", "-07", "-010", "+5", "007", " 5", "5 ", "0x10", "")
	}
	return g.val()
}

func (g *Gen) setCmd() []string {
	k := g.key()
	if g.chance(25) {
		a := []string{g.name("SSCAN"), k, "0", g.kw("COUNT"), "1000"}
		if g.chance(2) {
			a = append(a, g.kw("MATCH"), g.pick("*", "m*", "m[0-3]", "m[!0]", "", "[!m]*", "m?", "*%*", "m[^1]"))
		}
		return a
	}
	members := func() []string {
		var e []string
		for i := 0; i <= g.r.IntN(3); i++ {
			e = append(e, g.member())
		}
		if g.big && g.chance(5) {
			for i := 0; i < 30+g.r.IntN(50); i++ {
				e = append(e, "bm"+strconv.Itoa(g.r.IntN(400)))
			}
		}
		return e
	}
	keys := func(min int) []string {
		var e []string
		n := min + g.r.IntN(3)
		for i := 0; i < n; i++ {
			e = append(e, g.key())
		}
		return e
	}
	switch g.r.IntN(24) {
	case 0, 1, 2, 3:
		return append([]string{g.name("SADD"), k}, members()...)
	case 4, 5, 6:
		return append([]string{g.name("SREM"), k}, members()...)
	case 7:
		return []string{g.name("SCARD"), k}
	case 8:
		return []string{g.name("SISMEMBER"), k, g.member()}
	case 9:
		return append([]string{g.name("SMISMEMBER"), k}, members()...)
	case 10:
		return []string{g.name("SMEMBERS"), k}
	case 11, 12:
		dst := g.key()
		if g.chance(4) {
			dst = k
		}
		return []string{g.name("SMOVE"), k, dst, g.member()}
	case 13, 14:
		a := []string{g.name("SRANDMEMBER"), k}
		if g.chance(3) {
			return a
		}
		return append(a, g.pick("0", "1", "2", "3", "10", "-1", "-3", "-10", "x", "-9223372036854775808", "1000", "9223372036854775807", "4611686018427387904", "4294967296"))
	case 15, 16, 17:
		return append([]string{g.name(g.pick("SINTER", "SUNION", "SDIFF"))}, keys(1)...)
	case 18, 19, 20:
		return append([]string{g.name(g.pick("SINTERSTORE", "SUNIONSTORE", "SDIFFSTORE")), g.key()}, keys(1)...)
	default:
		ks := keys(1)
		a := []string{g.name("SINTERCARD"), g.pick(strconv.Itoa(len(ks)), strconv.Itoa(len(ks)), strconv.Itoa(len(ks)), "0", "-1", "x")}
		a = append(a, ks...)
		if g.chance(2) {
			a = append(a, g.kw("LIMIT"), g.pick("0", "1", "2", "3", "5", "-1"))
		}
		return a
	}
}

func (g *Gen) pattern() string {
	return g.pick("*", "k*", "k?", "k[0-2]", "k[^0]", "*1", "k\\*", "?", "[a-k]*", "k[0-9]*", "", "key:*", "*:*", "k[a]", "k[12]", "k[!0]", "[!k]*")
}

func (g *Gen) keyCmd() []string {
	k := g.key()
	switch g.r.IntN(22) {
	case 0, 1:
		return []string{g.name(g.pick("DEL", "UNLINK")), k, g.key()}
	case 2:
		return []string{g.name("EXISTS"), k, g.key(), k}
	case 3, 4:
		return []string{g.name("TYPE"), k}
	case 5:
		return []string{g.name("TOUCH"), k, g.key()}
	case 6, 7, 8:
		dst := g.key()
		if g.chance(5) {
			dst = k
		}
		return []string{g.name(g.pick("RENAME", "RENAMENX")), k, dst}
	case 9, 10, 11:
		dst := g.key()
		if g.chance(6) {
			dst = k
		}
		a := []string{g.name("COPY"), k, dst}
		if g.chance(2) {
			a = append(a, g.kw("REPLACE"))
		}
		return a
	case 12, 13:
		return []string{g.name("KEYS"), g.pattern()}
	case 14:
		if g.chance(2) {
			// one call over the whole (small) keyspace, with the filters SCAN knows
			a := []string{g.name("SCAN"), "0", g.kw("COUNT"), "1000"}
			if g.chance(2) {
				a = append(a, g.kw("TYPE"), g.kw(g.pick("string", "list", "hash", "set", "zset")))
			}
			if g.chance(3) {
				a = append(a, g.kw("MATCH"), g.pattern())
			}
			return a
		}
		return []string{g.name("RANDOMKEY")}
	case 15, 16:
		return []string{g.name("DBSIZE")}
	default:
		a := []string{g.name("SORT"), k}
		var opts [][]string
		if g.chance(3) {
			opts = append(opts, []string{g.kw("LIMIT"), g.pick("0", "1", "2", "-1", "10"), g.pick("0", "1", "2", "-1", "10")})
		}
		if g.chance(3) {
			opts = append(opts, []string{g.kw(g.pick("ASC", "DESC"))})
		}
		if g.chance(2) {
			opts = append(opts, []string{g.kw("ALPHA")})
		}
		if g.chance(4) {
			opts = append(opts, []string{g.kw("STORE"), g.key()})
		}
		if !g.avoid["option-order"] {
			g.r.Shuffle(len(opts), func(i, j int) { opts[i], opts[j] = opts[j], opts[i] })
		}
		for _, o := range opts {
			a = append(a, o...)
		}
		return a
	}
}

func (g *Gen) expireCmd(now int64) []string {
	k := g.key()
	flags := func(a []string) []string {
		switch g.r.IntN(8) {
		case 0:
			a = append(a, g.kw("NX"))
		case 1:
			a = append(a, g.kw("XX"))
		case 2:
			a = append(a, g.kw("GT"))
		case 3:
			a = append(a, g.kw("LT"))
		}
		return a
	}
	switch g.r.IntN(14) {
	case 0, 1, 2:
		return flags([]string{g.name("EXPIRE"), k, g.ttlSeconds()})
	case 3, 4:
		return flags([]string{g.name("PEXPIRE"), k, g.ttlMillis()})
	case 5:
		return flags([]string{g.name("EXPIREAT"), k, g.tsSeconds(now)})
	case 6:
		return flags([]string{g.name("PEXPIREAT"), k, g.tsMillis(now)})
	case 7, 8:
		return []string{g.name(g.pick("TTL", "PTTL")), k}
	case 9:
		return []string{g.name(g.pick("EXPIRETIME", "PEXPIRETIME")), k}
	case 10, 11:
		return []string{g.name("PERSIST"), k}
	default:
		return []string{g.name("TTL"), k}
	}
}

// shape: commands that create a key of a chosen type (state-shaping prefix)
func (g *Gen) shape() []string {
	k := g.key()
	switch g.r.IntN(5) {
	case 0:
		return []string{"SET", k, g.strVal()}
	case 1:
		return []string{"RPUSH", k, g.elem(), g.elem(), g.elem()}
	case 2:
		return []string{"HSET", k, g.field(), g.hval(), g.field(), g.hval()}
	case 3:
		return []string{"SADD", k, g.member(), g.member(), g.member()}
	default:
		return []string{"DEL", k}
	}
}

// bitCmd: bitmap commands on (mostly small) string values.
func (g *Gen) bitCmd() []string {
	k := g.key()
	off := func() string {
		switch g.r.IntN(12) {
		case 0:
			return g.pick("-1", "4294967296", "abc", "", "9223372036854775807", "1.5")
		case 1:
			return strconv.Itoa(64 + g.r.IntN(200))
		}
		return strconv.Itoa(g.r.IntN(40))
	}
	idx := func() string {
		if g.chance(12) {
			return g.pick("abc", "", "9223372036854775807", "-9223372036854775808", "1.0")
		}
		return strconv.Itoa(g.r.IntN(21) - 10)
	}
	unit := func(a []string) []string {
		if g.chance(2) {
			a = append(a, g.kw(g.pick("BIT", "BYTE", "BYTE")))
		} else if g.chance(20) {
			a = append(a, "BITS")
		}
		return a
	}
	bfType := func() string {
		if g.chance(12) {
			return g.pick("u64", "i65", "u0", "i0", "x8", "8", "u", "")
		}
		return g.pick("u8", "i8", "u4", "i5", "u16", "i16", "u1", "i1", "u32", "i32", "i64", "u63", "i3", "u7")
	}
	bfOff := func() string {
		if g.chance(12) {
			return g.pick("-1", "#-1", "abc", "#", "4294967296")
		}
		return g.pick("0", "1", "7", "8", "13", "#0", "#1", "#2", "30", "#5")
	}
	switch g.r.IntN(15) {
	case 0, 1, 2:
		return []string{g.name("SETBIT"), k, off(), g.pick("0", "1", "1", "1", "2", "x")[0:1]}
	case 3:
		return []string{g.name("GETBIT"), k, off()}
	case 4:
		return []string{g.name("BITCOUNT"), k}
	case 5:
		return unit([]string{g.name("BITCOUNT"), k, idx(), idx()})
	case 6:
		return []string{g.name("BITPOS"), k, g.pick("0", "1", "1", "2")}
	case 7:
		a := []string{g.name("BITPOS"), k, g.pick("0", "1"), idx()}
		if g.chance(2) {
			a = unit(append(a, idx()))
		}
		return a
	case 8, 9, 10:
		a := []string{g.name("BITFIELD"), k}
		for i := 0; i <= g.r.IntN(3); i++ {
			switch g.r.IntN(6) {
			case 0, 1:
				a = append(a, g.kw("GET"), bfType(), bfOff())
			case 2:
				a = append(a, g.kw("SET"), bfType(), bfOff(), g.anyInt())
			case 3, 4:
				a = append(a, g.kw("INCRBY"), bfType(), bfOff(), g.anyInt())
			default:
				// (the documented grammar: OVERFLOW is the prefix of a write operation)
				a = append(a, g.kw("OVERFLOW"), g.kw(g.pick("WRAP", "SAT", "FAIL", "FAIL", "NOPE")), g.kw(g.pick("INCRBY", "SET")), bfType(), bfOff(), g.anyInt())
			}
		}
		return a
	case 11:
		a := []string{g.name("BITFIELD_RO"), k, g.kw("GET"), bfType(), bfOff()}
		if g.chance(6) {
			a = append(a, g.kw("SET"), "u8", "0", "1")
		}
		return a
	case 12:
		op := g.pick("AND", "OR", "XOR", "NOT")
		a := []string{g.name("BITOP"), g.kw(op), g.key(), g.key()}
		if op != "NOT" && g.chance(2) {
			a = append(a, g.key())
		}
		return a
	default:
		return []string{g.name("SET"), k, g.pick("\xff\xf0\x00", "\xff\xff\xff", "\x00\x00", "a", "\x80", "", "\x00\xff\x0f\x01")}
	}
}
