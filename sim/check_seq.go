package sim

// O-seq: stepwise refinement of the reference model by histories in which at
// most one command is in flight (DESIGN.md 4.4). Used by C02-C07, C09 (single
// connection part), C14, C19.

import (
	"fmt"
	"sort"
	"strconv"
	"strings"
	"sync"
	"time"

	redisemu "github.com/jimsnab/go-redisemu"
)

const granularityNs = int64(time.Millisecond) // clock granularity granted to deadlines

type seqChecker struct {
	plan *Plan
	m    *Model
	sess map[int]*Sess
	gens map[int]int
	// coverage
	ncmd            int
	nerr            int
	typesHit        map[string]bool
	typesSeen       map[mType]bool
	execNonEmpty    int
	flushWithOthers int
	dbsSeen         map[int]bool
	watchedTouched  int
	wrongType       int
	expiredHit      int
}

func newSeqChecker(p *Plan) Checker {
	return &seqChecker{plan: p, m: NewModel(), sess: map[int]*Sess{}, gens: map[int]int{}, typesHit: map[string]bool{}, typesSeen: map[mType]bool{}}
}

func (c *seqChecker) OnStep(w *World) *Violation { return nil }

func (c *seqChecker) session(op *Op) *Sess {
	s := c.sess[op.Client]
	if s == nil || c.gens[op.Client] != op.ConnGen {
		s = NewSess()
		c.sess[op.Client] = s
		c.gens[op.Client] = op.ConnGen
	}
	return s
}

func cmdLower(op *Op) string {
	if len(op.Item.Args) == 0 {
		return ""
	}
	return strings.ToLower(string(op.Item.Args[0]))
}

func (c *seqChecker) OnReply(w *World, op *Op) *Violation {
	if op.Lost {
		return nil
	}
	s := c.session(op)
	now := w.WallNow().UnixNano()
	argv := strs(op.Item.Args)
	before := c.m.Clone()
	sBefore := s.Clone()
	exp := c.m.Apply(s, now, argv)
	c.ncmd++
	if c.dbsSeen == nil {
		c.dbsSeen = map[int]bool{}
	}
	for i := range before.dbs {
		if len(before.dbs[i]) > 0 {
			c.dbsSeen[i] = true
		}
	}
	for _, a := range argv[1:] {
		if o, ok := before.dbs[s.DB][a]; ok {
			c.typesSeen[o.T] = true
		}
	}
	if exp.IsErr() {
		c.nerr++
	}
	if exp.Mode == exErr && exp.Class == "WRONGTYPE" {
		c.wrongType++
	}
	if name := cmdLower(op); name == "flushdb" || name == "flushall" {
		for cid, os := range c.sess {
			if cid != op.Client && (name == "flushall" || os.DB == sBefore.DB) {
				c.flushWithOthers++
			}
		}
	}
	if name := cmdLower(op); name == "exec" && len(sBefore.Queue) > 0 && !op.Reply.IsErr() {
		c.execNonEmpty++
	} else if name != "watch" && name != "multi" && name != "exec" {
		// did this command change a key some connection is watching?
		for _, os := range c.sess {
			for wk, v := range os.Watch {
				if c.m.ver[wk] != v && before.ver[wk] == v {
					c.watchedTouched++
				}
			}
		}
	}
	if err := exp.Match(op.Reply); err != nil {
		return &Violation{Oracle: "reply", Step: w.step,
			Fp:  "reply:" + replyFingerprint(before, sBefore, argv, exp, op.Reply, c.m.now),
			Msg: fmt.Sprintf("client %d command #%d %s: %v\nmodel state before: %s", op.Client, op.Idx, fmtArgs(argv), err, describeKeys(before, s, argv))}
	}
	if exp.Resolve != nil {
		exp.Resolve(op.Reply)
	}
	if w.plan.Knobs.Dump {
		if v := c.compareState(w, now, argv); v != nil {
			v.Msg = fmt.Sprintf("after client %d command #%d %s (reply %s): %s", op.Client, op.Idx, fmtArgs(argv), op.Reply.String(), v.Msg)
			return v
		}
	}
	return nil
}

func (c *seqChecker) Final(w *World) *Violation {
	return nil
}

func (c *seqChecker) Extra() map[string]int {
	types := map[mType]bool{}
	for i := range c.m.dbs {
		for _, o := range c.m.dbs[i] {
			types[o.T] = true
		}
	}
	for t := range c.typesSeen {
		types[t] = true
	}
	return map[string]int{"types": len(types), "wrongtype": c.wrongType, "errors": c.nerr, "cmds": c.ncmd, "exec-nonempty": c.execNonEmpty, "watched-touched": c.watchedTouched, "flush-with-others": c.flushWithOthers, "dbs-used": c.dbsUsed()}
}

func fmtArgs(a []string) string {
	q := make([]string, len(a))
	for i, x := range a {
		if len(x) > 40 {
			q[i] = strconv.Quote(x[:20]) + fmt.Sprintf("..(%d bytes)", len(x))
		} else {
			q[i] = strconv.Quote(x)
		}
	}
	return strings.Join(q, " ")
}

// describeKeys lists the model's view of every argument that names a key.
func describeKeys(m *Model, s *Sess, argv []string) string {
	var sb strings.Builder
	seen := map[string]bool{}
	for _, a := range argv[1:] {
		if seen[a] {
			continue
		}
		seen[a] = true
		if o, ok := m.dbs[s.DB][a]; ok {
			fmt.Fprintf(&sb, "%q=%s ", a, describeObj(o))
		}
	}
	if sb.Len() == 0 {
		return "(no argument names an existing key)"
	}
	return sb.String()
}

func describeObj(o *mObj) string {
	var v string
	switch o.T {
	case tString:
		v = strconv.Quote(clipS(o.S, 40))
	case tList:
		v = fmt.Sprintf("list%q", o.L)
	case tHash:
		v = fmt.Sprintf("hash(%d)", len(o.H))
		if len(o.H) <= 6 {
			v = fmt.Sprintf("hash%v", o.H)
		}
	case tSet:
		v = fmt.Sprintf("set%q", sortedKeys(o.Z))
	}
	if o.Exp != 0 {
		v += fmt.Sprintf(" exp=%d", o.Exp)
	}
	return clipS(v, 200)
}

// replyFingerprint: command + type of the first key argument + classes of
// expected and observed reply + a few relations between arguments.
func replyFingerprint(m *Model, s *Sess, argv []string, exp Expect, got Value, nowNs int64) string {
	name := strings.ToLower(argv[0])
	kt := "-"
	if len(argv) > 1 {
		if o, ok := m.dbs[s.DB][argv[1]]; ok {
			kt = o.T.String()
		} else {
			kt = "none"
		}
	}
	rel := ""
	if len(argv) > 2 && argv[1] == argv[2] {
		rel = ":src=dst"
	}
	if s.InMulti {
		rel += ":multi"
	}
	if optionsReordered(name, argv) {
		rel += ":reordered"
	}
	if name == "exec" && exp.Mode == exExact && exp.V.K == KNil && got.K == KArray {
		// which watched keys made the model abort?
		// (m is the state before the command: a watched key whose deadline has
		// passed by the time of this EXEC counts as removed)
		aba := true
		for wk, v := range s.Watch {
			o := m.dbs[wk.db][wk.key]
			gone := o == nil || (o.Exp != 0 && nowNs > o.Exp+o.Slack)
			if (m.ver[wk] != v || gone) && !(s.WatchMiss[wk] && gone) {
				aba = false
			}
		}
		if aba {
			rel += ":watched-missing-key-recreated-and-removed"
		}
	}
	ek := "val"
	switch exp.Mode {
	case exErr:
		ek = "err" + exp.Class
	case exExact:
		ek = exp.V.K.String()
	}
	gk := got.K.String()
	if got.IsErr() {
		gk = "err" + got.ErrClass()
	}
	return fmt.Sprintf("%s:%s%s:%s>%s", name, kt, rel, ek, gk)
}

// compareState compares the emulator's stored state with the model's.
func (c *seqChecker) compareState(w *World, now int64, argv []string) *Violation {
	eng := w.Emu(0)
	if eng == nil {
		return nil
	}
	name := strings.ToLower(argv[0])
	held := func(i int) bool {
		mu := redisemu.SimDbMutex(eng, i)
		return mu != nil && w.sched.owned(mu)
	}
	for db := 0; db < 16; db++ {
		if held(db) {
			continue
		}
		dump := redisemu.SimDumpDb(eng, db)
		mdb := c.m.dbs[db]
		nowT := time.Unix(0, now)
		live := 0
		// (sorted: which of several differences is reported must not depend on map order)
		names := make([]string, 0, len(dump))
		for k := range dump {
			names = append(names, k)
		}
		sort.Strings(names)
		for _, k := range names {
			o := dump[k]
			if !o.ExpiresAt.After(nowT) {
				// deadline reached (a deadline equal to "now" takes effect before
				// the next command, which runs at least 1 microsecond later)
				c.expiredHit++
				w.stats.ExpiredSeen++
				continue
			}
			live++
			mo, ok := mdb[k]
			if ok && mo.Slack > 0 {
				// whole-second deadline: adopt where the implementation put it
				if d := o.ExpiresAt.UnixNano() - mo.Exp; d >= -granularityNs && d <= mo.Slack+granularityNs {
					mo.Exp, mo.Slack = o.ExpiresAt.UnixNano(), 0
				}
			}
			if !ok {
				return &Violation{Oracle: "state", Step: w.step, Fp: "state:" + name + ":extra-key:" + o.Type,
					Msg: fmt.Sprintf("db %d holds key %q (%s) which should not exist", db, k, o.Type)}
			}
			if d := diffObj(mo, &o); d != "" {
				return &Violation{Oracle: "state", Step: w.step, Fp: "state:" + name + ":" + mo.T.String() + ":" + strings.SplitN(d, " ", 2)[0],
					Msg: fmt.Sprintf("db %d key %q: %s", db, k, d)}
			}
		}
		if live != len(mdb) {
			var missing []string
			for k, mo := range mdb {
				if o, ok := dump[k]; !ok || !o.ExpiresAt.After(nowT) {
					if mo.Slack > 0 && now >= mo.Exp-granularityNs {
						// inside the granularity window of a whole-second deadline
						// the implementation may already have expired the key
						delete(mdb, k)
						c.m.touchVer(db, k)
						continue
					}
					missing = append(missing, k)
				}
			}
			if len(missing) == 0 {
				continue
			}
			sort.Strings(missing)
			t := "?"
			if len(missing) > 0 {
				t = mdb[missing[0]].T.String()
			}
			return &Violation{Oracle: "state", Step: w.step, Fp: "state:" + name + ":missing-key:" + t,
				Msg: fmt.Sprintf("db %d lacks key(s) %q that should exist", db, missing)}
		}
	}
	return checkInvariants(w, name)
}

// checkInvariants runs the structural walker of /repo's sim_inspect.go over
// every database no parked command currently owns.
func checkInvariants(w *World, ctx string) *Violation {
	for i := range w.emus {
		if w.emus[i] == nil || !w.emus[i].started {
			continue
		}
		st, err := redisemu.SimCheckInvariants(w.emus[i].eng, func(mu *sync.Mutex) bool { return w.sched.owned(mu) })
		if err != nil {
			msg := err.Error()
			cls := msg
			if j := strings.Index(cls, ": "); j >= 0 {
				cls = cls[j+2:]
			}
			if j := strings.IndexAny(cls, "0123456789\""); j > 0 {
				cls = strings.TrimSpace(cls[:j])
			}
			return &Violation{Oracle: "invariant", Step: w.step, Fp: "invariant:" + ctx + ":" + cls, Msg: "structural invariant broken: " + msg}
		}
		if st.MaxBuckets > w.stats.MaxBuckets {
			w.stats.MaxBuckets = st.MaxBuckets
		}
		w.curBuckets = st.MaxBuckets
	}
	return nil
}

func diffObj(mo *mObj, o *redisemu.SimObj) string {
	if mo.T.String() != o.Type {
		return fmt.Sprintf("type is %s, expected %s", o.Type, mo.T)
	}
	switch mo.T {
	case tString:
		if mo.Float {
			f1, e1 := strconv.ParseFloat(mo.S, 64)
			f2, e2 := strconv.ParseFloat(string(o.Str), 64)
			if e1 != nil || e2 != nil || !floatNear(f1, f2) || expNotation(string(o.Str)) {
				return fmt.Sprintf("value is %q, expected number %s (fixed notation)", clipS(string(o.Str), 60), clipS(mo.S, 60))
			}
			// the digits the implementation chose are adopted: commands that work on
			// the bytes of the value (ranges, bits) are exact from here on
			mo.S, mo.Float = string(o.Str), false
		} else if mo.S != string(o.Str) {
			return fmt.Sprintf("value is %q, expected %q", clipS(string(o.Str), 60), clipS(mo.S, 60))
		}
	case tList:
		if len(mo.L) != len(o.List) {
			return fmt.Sprintf("list has %d elements %q, expected %d %q", len(o.List), clipList(o.List), len(mo.L), clipStrs(mo.L))
		}
		for i := range mo.L {
			if mo.L[i] != string(o.List[i]) {
				return fmt.Sprintf("list is %q, expected %q", clipList(o.List), clipStrs(mo.L))
			}
		}
	case tHash:
		if len(mo.H) != len(o.Hash) {
			return fmt.Sprintf("hash has %d fields, expected %d", len(o.Hash), len(mo.H))
		}
		for _, f := range sortedKeys(mo.H) {
			v := mo.H[f]
			ov, ok := o.Hash[f]
			if !ok {
				return fmt.Sprintf("hash lacks field %q", f)
			}
			if mo.HF[f] {
				f1, _ := strconv.ParseFloat(v, 64)
				f2, e2 := strconv.ParseFloat(ov, 64)
				if e2 != nil || !floatNear(f1, f2) || expNotation(ov) {
					return fmt.Sprintf("hash field %q is %q, expected number %s (fixed notation)", f, clipS(ov, 60), clipS(v, 60))
				}
			} else if ov != v {
				return fmt.Sprintf("hash field %q is %q, expected %q", f, clipS(ov, 40), clipS(v, 40))
			}
		}
	case tSet:
		if len(mo.Z) != len(o.Set) {
			return fmt.Sprintf("set has %d members %q, expected %d %q", len(o.Set), sortedKeys(o.Set), len(mo.Z), sortedKeys(mo.Z))
		}
		for _, x := range sortedKeys(mo.Z) {
			if _, ok := o.Set[x]; !ok {
				return fmt.Sprintf("set lacks member %q", x)
			}
		}
	}
	// deadline
	noExp := redisemu.SimNoExpiry()
	if mo.Exp == 0 {
		if !o.ExpiresAt.Equal(noExp) {
			return fmt.Sprintf("expiry deadline %v present, expected none", o.ExpiresAt.UTC())
		}
	} else {
		if o.ExpiresAt.Equal(noExp) {
			return fmt.Sprintf("expiry absent, expected deadline %v", time.Unix(0, mo.Exp).UTC())
		}
		d := o.ExpiresAt.UnixNano() - mo.Exp
		if o.ExpiresAt.Year() > 2261 {
			d = granularityNs + 1
			if mo.Exp == maxInt64 {
				d = 0
			}
		}
		if d < -granularityNs || d > granularityNs {
			return fmt.Sprintf("expiry deadline is %v, expected %v", o.ExpiresAt.UTC(), time.Unix(0, mo.Exp).UTC())
		}
	}
	return ""
}

func clipList(l [][]byte) []string {
	out := make([]string, 0, len(l))
	for i, e := range l {
		if i >= 12 {
			out = append(out, "...")
			break
		}
		out = append(out, clipS(string(e), 16))
	}
	return out
}

func clipStrs(l []string) []string {
	out := make([]string, 0, len(l))
	for i, e := range l {
		if i >= 12 {
			out = append(out, "...")
			break
		}
		out = append(out, clipS(e, 16))
	}
	return out
}

// optionsReordered: SET / SORT options appear in another order than the
// command definition lists them (feature used by known finding KF-option-order).
func optionsReordered(name string, argv []string) bool {
	var rank map[string]int
	var skip map[string]int
	start := 0
	switch name {
	case "set":
		rank = map[string]int{"NX": 1, "XX": 1, "GET": 2, "EX": 3, "PX": 3, "EXAT": 3, "PXAT": 3, "KEEPTTL": 3}
		skip = map[string]int{"EX": 1, "PX": 1, "EXAT": 1, "PXAT": 1}
		start = 3
	case "sort":
		rank = map[string]int{"BY": 1, "LIMIT": 2, "GET": 3, "ASC": 4, "DESC": 4, "ALPHA": 5, "STORE": 6}
		skip = map[string]int{"BY": 1, "LIMIT": 2, "GET": 1, "STORE": 1}
		start = 2
	default:
		return false
	}
	last := 0
	for i := start; i < len(argv); i++ {
		t := strings.ToUpper(argv[i])
		r, ok := rank[t]
		if !ok {
			return false
		}
		if r < last {
			return true
		}
		last = r
		i += skip[t]
	}
	return false
}

func (c *seqChecker) dbsUsed() int { return len(c.dbsSeen) }
