//go:build !race

package sim

const raceBuild = false

func raceOff() {}
func raceOn()  {}
