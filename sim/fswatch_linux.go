package sim

import (
	"fmt"
	"strings"
	"syscall"
	"unsafe"
)

// fsWatch records what happens to the files of the persist directory, through
// inotify. The kernel queues the events in order and without loss, so the
// record is complete and - because the emulator's file operations are a
// function of the (deterministic) run - repeatable. It lets the C19 oracle see
// file states that exist only between two persist-stage callbacks.
type fsWatch struct {
	fd  int
	buf []byte
}

func newFsWatch(dir string) *fsWatch {
	fd, err := syscall.InotifyInit1(syscall.IN_NONBLOCK | syscall.IN_CLOEXEC)
	if err != nil {
		return nil
	}
	if _, err := syscall.InotifyAddWatch(fd, dir, syscall.IN_CREATE|syscall.IN_DELETE|syscall.IN_MOVED_FROM|syscall.IN_MOVED_TO); err != nil {
		syscall.Close(fd)
		return nil
	}
	return &fsWatch{fd: fd, buf: make([]byte, 64*1024)}
}

type fsEvent struct {
	mask uint32
	name string
}

func (e fsEvent) String() string {
	var k []string
	for _, m := range []struct {
		bit  uint32
		name string
	}{{syscall.IN_CREATE, "CREATE"}, {syscall.IN_DELETE, "DELETE"}, {syscall.IN_MOVED_FROM, "MOVED_FROM"}, {syscall.IN_MOVED_TO, "MOVED_TO"}} {
		if e.mask&m.bit != 0 {
			k = append(k, m.name)
		}
	}
	return strings.Join(k, "|") + " " + e.name
}

// drain returns the events queued since the last call (never blocks).
func (f *fsWatch) drain() (out []fsEvent) {
	if f == nil {
		return nil
	}
	for {
		n, err := syscall.Read(f.fd, f.buf)
		if n <= 0 || err != nil {
			return
		}
		for off := 0; off+syscall.SizeofInotifyEvent <= n; {
			ev := (*syscall.InotifyEvent)(unsafe.Pointer(&f.buf[off]))
			name := ""
			if ev.Len > 0 {
				b := f.buf[off+syscall.SizeofInotifyEvent : off+syscall.SizeofInotifyEvent+int(ev.Len)]
				name = strings.TrimRight(string(b), "\x00")
			}
			out = append(out, fsEvent{mask: ev.Mask, name: name})
			off += syscall.SizeofInotifyEvent + int(ev.Len)
		}
	}
}

func (f *fsWatch) close() {
	if f != nil {
		syscall.Close(f.fd)
	}
}

// snapshotProtocolViolation: a snapshot file that exists may only ever be
// replaced by a rename onto its name. If it is deleted or moved away, there
// is a moment at which a crash leaves neither the previous nor the new
// snapshot of that database.
func snapshotProtocolViolation(evs []fsEvent) string {
	exists := map[string]bool{}
	for i, e := range evs {
		if strings.HasSuffix(e.name, ".tmp") || e.name == "" {
			continue
		}
		switch {
		case e.mask&(syscall.IN_CREATE|syscall.IN_MOVED_TO) != 0:
			exists[e.name] = true
		case e.mask&(syscall.IN_DELETE|syscall.IN_MOVED_FROM) != 0:
			if exists[e.name] {
				from := i - 3
				if from < 0 {
					from = 0
				}
				to := i + 3
				if to > len(evs) {
					to = len(evs)
				}
				return fmt.Sprintf("snapshot file %s was taken away during a save (events: %v): a crash at that moment leaves neither the previous nor the new snapshot", e.name, evs[from:to])
			}
		}
	}
	return ""
}
