package sim

import (
	"context"
	"fmt"
	"time"

	"github.com/jimsnab/go-lane"
)

// quietLane is a lane.Lane whose logging methods are empty and lock-free, so
// that the logger neither costs time nor manufactures happens-before edges
// between connections in a -race build. Cancellation is a plain context.
type quietLane struct {
	lane.Lane // never-called remainder of the interface (nil)
	ctx       context.Context
}

func newQuietLane() *quietLane { return &quietLane{ctx: context.Background()} }

func (q *quietLane) Deadline() (time.Time, bool) { return q.ctx.Deadline() }
func (q *quietLane) Done() <-chan struct{}       { return q.ctx.Done() }
func (q *quietLane) Err() error                  { return q.ctx.Err() }
func (q *quietLane) Value(key any) any           { return q.ctx.Value(key) }

func (q *quietLane) LaneId() string    { return "sim" }
func (q *quietLane) JourneyId() string { return "" }

func (q *quietLane) Trace(args ...any)                      {}
func (q *quietLane) Tracef(format string, args ...any)      {}
func (q *quietLane) TraceObject(message string, obj any)    {}
func (q *quietLane) Debug(args ...any)                      {}
func (q *quietLane) Debugf(format string, args ...any)      {}
func (q *quietLane) DebugObject(message string, obj any)    {}
func (q *quietLane) Info(args ...any)                       {}
func (q *quietLane) Infof(format string, args ...any)       {}
func (q *quietLane) InfoObject(message string, obj any)     {}
func (q *quietLane) Warn(args ...any)                       {}
func (q *quietLane) Warnf(format string, args ...any)       {}
func (q *quietLane) WarnObject(message string, obj any)     {}
func (q *quietLane) Error(args ...any)                      {}
func (q *quietLane) Errorf(format string, args ...any)      {}
func (q *quietLane) ErrorObject(message string, obj any)    {}
func (q *quietLane) PreFatal(args ...any)                   {}
func (q *quietLane) PreFatalf(format string, args ...any)   {}
func (q *quietLane) PreFatalObject(message string, obj any) {}
func (q *quietLane) Fatal(args ...any)                      { panic("lane.Fatal: " + fmt.Sprint(args...)) }
func (q *quietLane) Fatalf(format string, args ...any) {
	panic("lane.Fatal: " + fmt.Sprintf(format, args...))
}
func (q *quietLane) FatalObject(message string, obj any) { panic("lane.Fatal: " + message) }
func (q *quietLane) LogStack(message string)             {}
func (q *quietLane) LogStackTrim(message string, n int)  {}
func (q *quietLane) Close()                              {}
func (q *quietLane) Derive() lane.Lane                   { return &quietLane{ctx: q.ctx} }
func (q *quietLane) DeriveWithoutCancel() lane.Lane {
	return &quietLane{ctx: context.WithoutCancel(q.ctx)}
}
func (q *quietLane) DeriveWithCancel() (lane.Lane, context.CancelFunc) {
	ctx, cancel := context.WithCancel(q.ctx)
	return &quietLane{ctx: ctx}, cancel
}
