package sim

// O-lin: linearizability of a recorded concurrent history against the
// reference model, decided by porcupine (DESIGN.md 4.4).

import (
	"fmt"
	"sort"
	"strings"
	"time"

	"github.com/anishathalye/porcupine"
)

type linInput struct {
	client  int
	gen     int
	argv    []string
	pending bool // no reply was received: any outcome (incl. "never executed") is allowed
	obs     bool // part of the final observation, not of the workload
}

type linState struct {
	m    *Model
	sess map[int]*Sess
	key  string
}

func (s *linState) clone() *linState {
	c := &linState{m: s.m.Clone(), sess: make(map[int]*Sess, len(s.sess))}
	for k, v := range s.sess {
		c.sess[k] = v.Clone()
	}
	return c
}

// canonical serialisation for porcupine's state cache
func (s *linState) canon() string {
	if s.key != "" {
		return s.key
	}
	var sb strings.Builder
	for db := range s.m.dbs {
		keys := sortedKeys(s.m.dbs[db])
		for _, k := range keys {
			o := s.m.dbs[db][k]
			fmt.Fprintf(&sb, "%d|%q|%d|%d|", db, k, o.T, o.Exp)
			switch o.T {
			case tString:
				fmt.Fprintf(&sb, "%q", o.S)
			case tList:
				fmt.Fprintf(&sb, "%q", o.L)
			case tHash:
				for _, f := range sortedKeys(o.H) {
					fmt.Fprintf(&sb, "%q=%q,", f, o.H[f])
				}
			case tSet:
				fmt.Fprintf(&sb, "%q", sortedKeys(o.Z))
			}
			sb.WriteByte('\n')
		}
	}
	// versions matter only to watchers
	ids := make([]int, 0, len(s.sess))
	for id := range s.sess {
		ids = append(ids, id)
	}
	sort.Ints(ids)
	for _, id := range ids {
		ss := s.sess[id]
		fmt.Fprintf(&sb, "S%d:%d,%v,%v,%d,%q;", id, ss.DB, ss.InMulti, ss.Dirty, len(ss.Queue), ss.Name)
		for _, q := range ss.Queue {
			fmt.Fprintf(&sb, "%q", q)
		}
		var ws []string
		for wk, v := range ss.Watch {
			ws = append(ws, fmt.Sprintf("%d/%q:%v:%v", wk.db, wk.key, s.m.ver[wk] != v, s.m.abaTolerant && ss.WatchMiss[wk]))
		}
		sort.Strings(ws)
		sb.WriteString(strings.Join(ws, ","))
	}
	s.key = sb.String()
	return s.key
}

func linModel(now int64, abaTolerant bool) porcupine.Model {
	return porcupine.Model{
		Init: func() interface{} {
			m := NewModel()
			m.abaTolerant = abaTolerant
			return &linState{m: m, sess: map[int]*Sess{}}
		},
		Step: func(state, input, output interface{}) (bool, interface{}) {
			st := state.(*linState).clone()
			in := input.(linInput)
			sid := in.client*1000 + in.gen
			ss := st.sess[sid]
			if ss == nil {
				ss = NewSess()
				st.sess[sid] = ss
			}
			exp := st.m.Apply(ss, now, in.argv)
			if in.pending {
				return true, st
			}
			got := output.(Value)
			if err := exp.Match(got); err != nil {
				return false, state
			}
			if exp.Resolve != nil {
				exp.Resolve(got)
			}
			return true, st
		},
		Equal: func(a, b interface{}) bool { return a.(*linState).canon() == b.(*linState).canon() },
		DescribeOperation: func(input, output interface{}) string {
			in := input.(linInput)
			if in.pending {
				return fmt.Sprintf("c%d %s -> (no reply)", in.client, fmtArgs(in.argv))
			}
			return fmt.Sprintf("c%d %s -> %s", in.client, fmtArgs(in.argv), output.(Value).String())
		},
	}
}

type linChecker struct {
	plan      *Plan
	overlaps  int
	result    string
	nops      int
	skipFinal bool
	execs     int
}

func newLinChecker(p *Plan) Checker { return &linChecker{plan: p} }

func (c *linChecker) OnReply(w *World, op *Op) *Violation { return nil }
func (c *linChecker) OnStep(w *World) *Violation          { return nil }

func (c *linChecker) Extra() map[string]int {
	m := map[string]int{"overlaps": c.overlaps, "ops": c.nops, "exec-answered": c.execs}
	m["porcupine-"+c.result] = 1
	return m
}

func (c *linChecker) Final(w *World) *Violation {
	if w.stats.EndReason != "done" {
		c.result = "skipped"
		if w.stats.EndReason == "step-budget" {
			return nil
		}
	}
	if v := checkInvariants(w, "final"); v != nil {
		return v
	}
	var ops []porcupine.Operation
	maxStep := w.step + 10
	for _, op := range w.history {
		if len(op.Item.Args) == 0 {
			continue
		}
		in := linInput{client: op.Client, gen: op.ConnGen, argv: strs(op.Item.Args), obs: op.Item.Tag == "obs"}
		o := porcupine.Operation{ClientId: op.Client, Input: in, Call: op.Invoke, Output: op.Reply, Return: op.Return}
		if op.Return >= 0 && strings.EqualFold(string(op.Item.Args[0]), "EXEC") && !op.Reply.IsErr() {
			c.execs++
		}
		if op.Return < 0 {
			in.pending = true
			o.Input = in
			o.Return = maxStep
			o.Output = Value{}
		}
		ops = append(ops, o)
	}
	c.nops = len(ops)
	// per-connection order: a command is only acted upon after the previous reply was written
	last := map[int]int64{}
	for i := range ops {
		id := ops[i].ClientId
		if r, ok := last[id]; ok && ops[i].Call < r {
			ops[i].Call = r
		}
		if ops[i].Return <= ops[i].Call {
			ops[i].Return = ops[i].Call + 1
		}
		last[id] = ops[i].Return
	}
	// count overlapping pairs of different clients sharing an argument (key)
	for i := range ops {
		for j := i + 1; j < len(ops); j++ {
			a, b := ops[i], ops[j]
			if a.ClientId == b.ClientId || a.Return <= b.Call || b.Return <= a.Call {
				continue
			}
			if shareArg(a.Input.(linInput).argv, b.Input.(linInput).argv) {
				c.overlaps++
			}
		}
	}
	w.stats.Overlaps = c.overlaps
	now := w.WallNow().UnixNano()
	res, info := porcupine.CheckOperationsVerbose(linModel(now, false), ops, 30*time.Second)
	switch res {
	case porcupine.Ok:
		c.result = "ok"
		return nil
	case porcupine.Unknown:
		c.result = "unknown"
		return nil
	}
	c.result = "illegal"
	_ = info
	fp := "lin"
	if r2, _ := porcupine.CheckOperationsVerbose(linModel(now, true), ops, 30*time.Second); r2 == porcupine.Ok {
		// the history is explained exactly by the open known finding
		fp = "reply:exec:conc:watched-missing-key-recreated-and-removed:lin"
	}
	// describe: the history, ordered by invocation
	var sb strings.Builder
	sort.SliceStable(ops, func(i, j int) bool { return ops[i].Call < ops[j].Call })
	names := map[string]bool{}
	for _, o := range ops {
		in := o.Input.(linInput)
		out := "(no reply)"
		if !in.pending {
			out = clipS(o.Output.(Value).String(), 80)
		}
		fmt.Fprintf(&sb, "  c%d [%d,%d] %s -> %s\n", in.client, o.Call, o.Return, fmtArgs(in.argv), out)
		if !in.obs {
			names[strings.ToLower(in.argv[0])] = true
		}
	}
	var nl []string
	for n := range names {
		nl = append(nl, n)
	}
	sort.Strings(nl)
	// one class for all illegal histories: minimisation then finds a smallest
	// illegal history, whose command set is reported in the message
	return &Violation{Oracle: "linearizability", Step: w.step, Fp: fp,
		Msg: "commands involved: " + strings.Join(nl, " ") + "\nno sequential order of these commands (respecting per-connection order and real-time precedence) yields the observed replies and final state:\n" + sb.String()}
}

func shareArg(a, b []string) bool {
	for _, x := range a[1:] {
		for _, y := range b[1:] {
			if x == y && len(x) <= 8 && strings.HasPrefix(x, "k") {
				return true
			}
		}
	}
	return false
}
