package sim

import (
	"bytes"
	"fmt"
	"strconv"
	"strings"
	"testing"
)

// C01: one well-formed reply per command, in order, independent of framing; binary safety.

var nastyBytes = []string{"", "\r", "\n", "\r\n", "\x00", "a\r\nb", "\xff\xfe\x80", "$5\r\nhello\r\n", "*1\r\n", "+OK\r\n", "-ERR x\r\n", " ", "\t", "a b", "\x00\x00\x00"}

func (g *Gen) nasty() string {
	switch g.r.IntN(10) {
	case 0:
		return strings.Repeat("A", 8190+g.r.IntN(5)) + g.val() // around the 8 KiB read buffer
	case 1:
		if g.big {
			return strings.Repeat("\xf0\x9f\x98\x80\r\n", 14000) + g.val() // > 64 KiB, binary
		}
		return strings.Repeat("z\x00", 600) + g.val()
	case 2, 3, 4:
		return nastyBytes[g.r.IntN(len(nastyBytes))] + g.val() + nastyBytes[g.r.IntN(len(nastyBytes))]
	case 5:
		return nastyBytes[g.r.IntN(len(nastyBytes))]
	}
	return g.val()
}

// genFramePlan: 1-3 connections on disjoint key spaces; all families; binary arguments.
func genFramePlan(seed uint64, thorough bool) *Plan {
	g := newGen(seed, 7)
	g.big = g.chance(8)
	p := &Plan{Prop: "C01", Seed: seed, Knobs: Knobs{RandSeed: int64(seed), MaxSteps: 200000, Frag: true, ShortReads: g.chance(2), RandAdv: []int{0, 0, 8}[g.r.IntN(3)]}}
	p.Knobs.Sticky = []int{0, 40, 80}[g.r.IntN(3)]
	if g.chance(6) {
		// exhaustive class: every split offset of one frame
		p.Class = "all-offsets"
		p.Knobs.Frag = false
		p.Knobs.ShortReads = false
		p.Knobs.RandAdv = 0
		cmds := [][]string{
			{"SET", "k", "v\r\nx"}, {"GET", "k"}, {"RPUSH", "l", "a", "", "\r\n"}, {"LRANGE", "l", "0", "-1"}, {"HSET", "h", "f\x00", "\xff"}, {"HGETALL", "h"},
			{"NOSUCH\r\nCMD", "x\r\ny"}, {"ECHO", "\r\n\r\n"}, {"PING"}, {"MSET", "a", "1", "b", "2"}, {"SADD", "s", "\n", "\r"}, {"SMEMBERS", "s"},
		}
		c := cmds[g.r.IntN(len(cmds))]
		frame := EncodeCmd(bs(c...))
		var items []Item
		// state first, so that read commands have something to return
		for _, pre := range [][]string{{"SET", "k", "v\r\nx"}, {"RPUSH", "l", "a", "", "\r\n"}, {"HSET", "h", "f\x00", "\xff"}, {"SADD", "s", "\n", "\r"}} {
			items = append(items, cmdItem(pre...))
		}
		readOnly := c[0] == "GET" || c[0] == "LRANGE" || c[0] == "HGETALL" || c[0] == "ECHO" || c[0] == "PING" || c[0] == "SMEMBERS" || strings.HasPrefix(c[0], "NOSUCH")
		for k := 1; k < len(frame); k++ {
			it := Item{Args: bs(c...), Cuts: []int{k}, Tag: "offset"}
			if g.chance(3) && k+1 < len(frame) {
				it.Cuts = []int{k, k + 1}
			}
			items = append(items, it)
			if !readOnly {
				break // a writing frame is only repeated when the reply stays the same
			}
		}
		if !readOnly {
			// rebuild: one fresh key per offset keeps the replies comparable
			items = items[:4]
			for k := 1; k < len(frame); k++ {
				c2 := append([]string(nil), c...)
				if len(c2) > 1 {
					c2[1] = c2[1] + strconv.Itoa(k)
				}
				items = append(items, Item{Args: bs(c2...), Cuts: []int{min(k, len(EncodeCmd(bs(c2...)))-1)}, Tag: "offset"})
			}
		}
		p.Clients = []Client{{Items: items}}
		return p
	}
	p.Class = "random"
	nc := 1 + g.r.IntN(3)
	for c := 0; c < nc; c++ {
		g.client = c
		pre := "c" + strconv.Itoa(c) + ":"
		g.keys = []string{pre + "k0", pre + "k1", pre + "k2", pre + "k\r\n3", pre + "\x00k4"}[:2+g.r.IntN(4)]
		n := 1 + g.r.IntN(40)
		var items []Item
		for i := 0; i < n; i++ {
			var a []string
			switch g.r.IntN(16) {
			case 0, 1:
				a = []string{"SET", g.key(), g.nasty()}
			case 2:
				a = []string{"GET", g.key()}
			case 3:
				a = []string{g.pick("RPUSH", "LPUSH"), g.key(), g.nasty(), g.nasty()}
			case 4:
				a = []string{"LRANGE", g.key(), "0", "-1"}
			case 5:
				a = []string{"HSET", g.key(), g.nasty(), g.nasty()}
			case 6:
				a = []string{g.pick("HGETALL", "HKEYS", "HVALS"), g.key()}
			case 7:
				a = []string{"SADD", g.key(), g.nasty(), g.nasty()}
			case 8:
				a = []string{"SMEMBERS", g.key()}
			case 9:
				a = []string{"ECHO", g.nasty()}
			case 10:
				// error replies that quote client input
				a = []string{g.pick("NOSUCH", "FOO\r\nBAR", "X\nY", "\r\n"), g.nasty(), g.nasty()}
				if g.chance(2) {
					// ... in every position an error message may quote: unknown
					// subcommands, option names, user names, numbers that do not parse
					n1, n2 := g.pick("a\r\nb", "x\r\n+OK", "\r\n", "\n", "q\rz", "nobody\r\n:1"), g.nasty()
					shapes := [][]string{
						{"CLIENT", n1}, {"CLIENT", n1, n2}, {"COMMAND", n1}, {"COMMAND", n1, n2},
						{"CLIENT", "KILL", "USER", n1}, {"CLIENT", "KILL", "TYPE", n1}, {"CLIENT", "KILL", n1, n2}, {"CLIENT", "KILL", "ID", n1},
						{"CLIENT", "SETNAME", n1}, {"CLIENT", "NO-EVICT", n1}, {"CLIENT", "UNBLOCK", n1}, {"CLIENT", "UNBLOCK", "1", n1},
						{"COMMAND", "INFO", n1}, {"COMMAND", "DOCS", n1}, {"COMMAND", "LIST", "FILTERBY", n1, n2}, {"COMMAND", "GETKEYS", n1, n2},
						{"HELLO", n1}, {"SELECT", n1}, {"SET", g.key(), "v", n1}, {"SET", g.key(), "v", "EX", n1}, {"EXPIRE", g.key(), n1},
						{"INCRBY", g.key(), n1}, {"LRANGE", g.key(), n1, "1"}, {"OBJECT", n1, g.key()}, {"CONFIG", n1, n2}, {"INFO", n1},
						{"HINCRBY", g.key(), "f", n1}, {"LINSERT", g.key(), n1, "a", "b"}, {"LMOVE", g.key(), g.key(), n1, n2}, {"SETRANGE", g.key(), n1, "x"},
					}
					a = shapes[g.r.IntN(len(shapes))]
				}
			case 11:
				a = []string{g.pick("GET", "SET", "LPUSH", "HSET", "EXPIRE"), g.key()}[:1+g.r.IntN(2)]
			case 12:
				a = []string{"APPEND", g.key(), g.nasty()}
			case 13:
				a = []string{"GETRANGE", g.key(), "0", "-1"}
			case 14:
				a = []string{"PING", g.nasty()}
				switch g.r.IntN(6) {
				case 0:
					// a request with more elements than any fixed-size table would hold
					n := []int{200, 1023, 1024, 1025, 1100, 1500}[g.r.IntN(6)]
					a = []string{g.pick("RPUSH", "SADD", "DEL", "LPUSH"), g.key()}
					for j := 0; j < n; j++ {
						a = append(a, "e"+strconv.Itoa(j))
					}
				case 1:
					// the empty value, duplicated and read through the copy
					a = []string{"COPY", g.key(), g.key(), "REPLACE"}
				case 2:
					a = []string{"SET", g.key(), ""}
				}
			default:
				switch g.r.IntN(4) {
				case 0:
					a = g.stringCmd(simEpochNs)
				case 1:
					a = g.listCmd()
				case 2:
					a = g.hashCmd()
				default:
					a = g.setCmd()
				}
				if isBlockingCmd(a[0]) {
					a = []string{"LLEN", g.key()}
				}
				if strings.EqualFold(a[0], "LCS") {
					// the emulator's LCS is quadratic with deep recursion: on the
					// > 64 KiB values of this workload one call takes minutes of
					// real time (a performance matter, not a framing one)
					a = []string{"STRLEN", g.key()}
				}
			}
			if setsExpiry(a) {
				// the fragmented twin takes more simulated time (clock jumps between
				// fragments): a deadline would make the replies legitimately differ
				a = []string{"GET", g.key()}
			}
			items = append(items, Item{Args: bs(a...)})
		}
		if g.chance(3) {
			// a request whose size is exactly a power of two, delivered in one piece to a
			// connection with nothing else outstanding, and nothing sent after it until the
			// reply is there: reads that fill a buffer exactly, with no byte to follow
			target := []int{1024, 4096, 8192, 16384, 32768, 65536}[g.r.IntN(6)]
			key := g.key()
			for vl := target - 64; vl < target; vl++ {
				if vl <= 0 {
					continue
				}
				a := bs("SET", key, strings.Repeat("p", vl))
				if n := len(EncodeCmd(a)); n == target {
					at := g.r.IntN(len(items) + 1)
					bn := int64(1000 + 100*c)
					ins := []Item{{Op: "barrier", N: bn}, {Args: a, Cuts: []int{n}, Tag: "pow2"}, {Op: "barrier", N: bn + 1}}
					items = append(items[:at:at], append(ins, items[at:]...)...)
					break
				}
			}
		}
		p.Clients = append(p.Clients, Client{Items: items, Depth: 1 + g.r.IntN(8)})
	}
	if g.chance(3) {
		// one more connection speaks RESP3 and asks for the long text replies
		// (verbatim strings: a length header in front of a typed payload)
		items := []Item{cmdItem("HELLO", "3")}
		for i := 0; i < 3+g.r.IntN(8); i++ {
			items = append(items, Item{Args: bs(g.pick2([][]string{{"INFO"}, {"INFO", "server"}, {"CLIENT", "LIST"}, {"CLIENT", "INFO"}, {"PING"}, {"ECHO", g.nasty()}, {"INFO", "clients"}, {"CLIENT", "SETNAME", g.pick("r3", "r4")}})...)})
		}
		p.Clients = append(p.Clients, Client{Items: items, Depth: 1 + g.r.IntN(8)})
	}
	return p
}

// frameChecker: per-connection sequential refinement (the key spaces are
// disjoint, so each connection has its own model); the byte-level comparison
// with the unfragmented twin run is done by the runner below.
type frameChecker struct {
	plan   *Plan
	models map[int]*Model
	sess   map[int]*Sess
	multi  int
}

func newFrameChecker(p *Plan) Checker {
	return &frameChecker{plan: p, models: map[int]*Model{}, sess: map[int]*Sess{}}
}

func (c *frameChecker) OnStep(w *World) *Violation { return nil }
func (c *frameChecker) Final(w *World) *Violation {
	if w.stats.EndReason == "step-budget" {
		return nil
	}
	for _, cl := range w.clients {
		if len(cl.pending) > 0 {
			op := cl.pending[0]
			return &Violation{Oracle: "frame", Step: w.step, Fp: "frame:no-reply",
				Msg: fmt.Sprintf("client %d: command #%d %s was delivered completely but no reply arrived (run end: %s)", cl.idx, op.Idx, argSummary(op.Item), w.stats.EndReason)}
		}
		if len(cl.recv) > 0 {
			return &Violation{Oracle: "frame", Step: w.step, Fp: "frame:trailing-bytes",
				Msg: fmt.Sprintf("client %d: %d bytes left over after the last reply: %q", cl.idx, len(cl.recv), clip(cl.recv, 80))}
		}
	}
	return nil
}

func (c *frameChecker) Extra() map[string]int {
	return map[string]int{"reassembled": c.multi}
}

func (c *frameChecker) OnReply(w *World, op *Op) *Violation {
	if op.Lost {
		return nil
	}
	m := c.models[op.Client]
	if m == nil {
		m = NewModel()
		c.models[op.Client] = m
		c.sess[op.Client] = NewSess()
	}
	argv := strs(op.Item.Args)
	exp := m.Apply(c.sess[op.Client], w.WallNow().UnixNano(), argv)
	if !ModelKnows(argv[0]) {
		switch strings.ToLower(argv[0]) {
		case "info", "command", "config", "object", "hello", "debug":
			// implemented by the emulator, not modelled: framing is all that is checked
			exp = Expect{Mode: exAny}
		default:
			// unknown command: an error reply
			exp = eErr("*")
		}
	}
	if err := exp.Match(op.Reply); err != nil {
		return &Violation{Oracle: "reply", Step: w.step, Fp: "reply:" + strings.ToLower(clipS(argv[0], 12)) + ":" + op.Reply.K.String(),
			Msg: fmt.Sprintf("client %d command #%d %s: %v", op.Client, op.Idx, fmtArgs(argv), err)}
	}
	if exp.Resolve != nil {
		exp.Resolve(op.Reply)
	}
	return nil
}

// replyDependsOnChance: replies that legitimately differ between two runs.
func replyDependsOnChance(argv []string) bool {
	switch strings.ToLower(argv[0]) {
	case "hrandfield", "srandmember", "randomkey", "ttl", "pttl", "expiretime", "pexpiretime", "client", "info", "hello":
		return true
	}
	return false
}

// runFrameTwin runs the plan unfragmented (whole commands, depth 1, no short
// reads, no clock jumps) and then as planned, and requires identical reply bytes.
func runFrameTwin(t *testing.T, plan *Plan, tape *Tape, keepLog bool) *RunResult {
	base := plan.clone()
	base.Knobs.Frag, base.Knobs.ShortReads, base.Knobs.RandAdv, base.Knobs.Sticky = false, false, 0, 100
	for i := range base.Clients {
		base.Clients[i].Depth = 1
		for j := range base.Clients[i].Items {
			base.Clients[i].Items[j].Cuts = nil
		}
	}
	ref := RunPlan(t, base, replayTape(nil), newFrameChecker, false)
	res := RunPlan(t, plan, tape, newFrameChecker, keepLog)
	if res.Viol != nil {
		return res
	}
	if ref.Viol != nil {
		ref.Viol.Msg = "(unfragmented reference run) " + ref.Viol.Msg
		res.Viol = ref.Viol
		return res
	}
	// per connection, the i-th reply must be byte-identical
	byClient := func(r *RunResult) map[int][]*Op {
		m := map[int][]*Op{}
		for _, op := range r.History {
			m[op.Client] = append(m[op.Client], op)
		}
		return m
	}
	a, b := byClient(ref), byClient(res)
	reassembled := 0
	for cl, ops := range b {
		for i, op := range ops {
			if i >= len(a[cl]) {
				break
			}
			ro := a[cl][i]
			if op.Return < 0 || ro.Return < 0 || replyDependsOnChance(strs(op.Item.Args)) {
				continue
			}
			if !bytes.Equal(op.Raw, ro.Raw) {
				res.Viol = &Violation{Oracle: "framing-independence", Step: op.Return, Fp: "framing:" + strings.ToLower(clipS(string(op.Item.Args[0]), 12)),
					Msg: fmt.Sprintf("client %d command #%d %s: reply bytes depend on how the request was delivered:\n  whole command, depth 1: %q\n  fragmented/pipelined:   %q", cl, op.Idx, fmtArgs(strs(op.Item.Args)), clip(ro.Raw, 200), clip(op.Raw, 200))}
				return res
			}
		}
	}
	res.Extra["reassembled"] = res.Stats.Faults["fragmented-delivery"] + res.Stats.Faults["coalesced-commands"]
	_ = reassembled
	return res
}

// setsExpiry: the command can give a key a deadline.
func setsExpiry(a []string) bool {
	switch strings.ToUpper(a[0]) {
	case "SETEX", "PSETEX", "EXPIRE", "PEXPIRE", "EXPIREAT", "PEXPIREAT":
		return true
	case "SET", "GETEX":
		if len(a) < 3 {
			return false
		}
		for _, x := range a[2:] {
			switch strings.ToUpper(x) {
			case "EX", "PX", "EXAT", "PXAT":
				return true
			}
		}
	}
	return false
}
