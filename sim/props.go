package sim

import (
	"encoding/json"
	"fmt"
	"hash/fnv"
	"os"
	"sort"
	"strings"
	"testing"
)

// propDef binds a property id to its workload generator, oracle and the rule
// that says which runs count as non-trivial for the evidence.
type propDef struct {
	id  string
	gen func(seed uint64, thorough bool) *Plan
	chk func(*Plan) Checker
	// runner, when set, replaces RunPlan(plan, tape, chk) (composite runs)
	runner func(t *testing.T, plan *Plan, tape *Tape, keepLog bool) *RunResult
	rule   string
	// nontrivial decides, from the finished run, whether it counts
	nontrivial func(res *RunResult) bool
	// probes that must be non-zero over a whole batch, else the check is vacuous (exit 2)
	needProbes      []string
	quickRuns       int
	thoroughRuns    int
	quickSeconds    int
	thoroughSeconds int
	race            bool
	crashy          bool // write the plan to disk before each run: the run may kill the process
	level           string
	explanation     string
	assumptions     []string
}

var realComponents = []string{
	"RedisEmu lifecycle (NewEmulator/Start/RequestTermination/WaitForTermination/Close)", "accept loop", "clientCxn state machine", "RESP codec (/repo)",
	"command dispatcher and argument parser", "all store commands", "wait table and block/wake loop", "transactions", "lazy expiry", "persistence save/load (real files in a per-run temp dir)", "periodic saver",
}

var stubComponents = []string{
	"TCP listener and connections (in-memory, simulator-owned: simnet.go)", "clock (testing/synctest fake clock, moved only by the simulator)",
	"goroutine scheduling (emulator goroutines parked at hook sites, released one at a time from the tape)", "logger (lock-free no-op lane)", "OS signals (never fire)", "clients (scripted byte producers/consumers, not go-redis)",
}

// propInfoJSON is what the driver asks the worker for.
func propInfoJSON(pd *propDef) map[string]any {
	return map[string]any{
		"id": pd.id, "rule": pd.rule, "needProbes": pd.needProbes, "quickRuns": pd.quickRuns, "thoroughRuns": pd.thoroughRuns,
		"quickSeconds": pd.quickSeconds, "thoroughSeconds": pd.thoroughSeconds, "race": pd.race, "level": pd.level,
		"explanation": pd.explanation, "assumptions": pd.assumptions, "real": realComponents, "stub": stubComponents,
	}
}

var props = map[string]*propDef{}

func regProp(p *propDef) { props[p.id] = p }

// RunRecord is what a worker reports per run.
type RunRecord struct {
	Seed       uint64         `json:"seed"`
	Class      string         `json:"class,omitempty"`
	End        string         `json:"end"`
	Steps      int64          `json:"steps"`
	TaskSteps  int64          `json:"taskSteps"`
	SimTimeNs  int64          `json:"simTimeNs"`
	Cmds       int            `json:"cmds"`
	Replies    int            `json:"replies"`
	SchedFp    string         `json:"schedFp"`
	HistFp     string         `json:"histFp,omitempty"`
	Nontrivial bool           `json:"nontrivial"`
	Faults     map[string]int `json:"faults,omitempty"`
	Probes     map[string]int `json:"probes,omitempty"`
	Viol       *Violation     `json:"viol,omitempty"`
	Replay     string         `json:"replay,omitempty"`
	Sample     any            `json:"sample,omitempty"`
	Extra      map[string]int `json:"extra,omitempty"`
}

// ReplayFile is the on-disk form of one reproducible run.
type ReplayFile struct {
	Property string     `json:"property"`
	Seed     uint64     `json:"seed"`
	Plan     *Plan      `json:"plan"`
	Tape     []uint32   `json:"tape"`
	Viol     *Violation `json:"violation"`
	Events   []string   `json:"events,omitempty"`
	Note     string     `json:"note,omitempty"`
}

func writeReplay(path string, rf *ReplayFile) error {
	b, err := json.MarshalIndent(rf, "", " ")
	if err != nil {
		return err
	}
	return os.WriteFile(path, b, 0o644)
}

func readReplay(path string) (*ReplayFile, error) {
	b, err := os.ReadFile(path)
	if err != nil {
		return nil, err
	}
	var rf ReplayFile
	if err := json.Unmarshal(b, &rf); err != nil {
		return nil, err
	}
	return &rf, nil
}

// sampleOf renders a short human-readable version of a run for evidence files.
func sampleOf(res *RunResult, max int) any {
	var cmds []string
	for i, op := range res.History {
		if i >= max {
			cmds = append(cmds, fmt.Sprintf("... %d more", len(res.History)-i))
			break
		}
		r := "(no reply)"
		if op.Return >= 0 {
			r = clipS(op.Reply.String(), 60)
		}
		cmds = append(cmds, fmt.Sprintf("c%d[%d,%d] %s -> %s", op.Client, op.Invoke, op.Return, clipS(argSummary(op.Item), 80), r))
	}
	return map[string]any{"seed": res.Plan.Seed, "class": res.Plan.Class, "steps": res.Stats.Steps, "history": cmds}
}

func sortedProbeNames(m map[string]int) []string {
	var out []string
	for k := range m {
		out = append(out, k)
	}
	sort.Strings(out)
	return out
}

var _ = strings.ToLower

// runProp executes one run of a property (plain or composite).
func runProp(t *testing.T, pd *propDef, plan *Plan, tape *Tape, keepLog bool) *RunResult {
	if pd.runner != nil {
		return pd.runner(t, plan, tape, keepLog)
	}
	return RunPlan(t, plan, tape, pd.chk, keepLog)
}

// histFp hashes the recorded history (who sent what at which step and what
// came back when): together with the schedule fingerprint it is what the
// determinism self-test compares between processes.
func histFp(res *RunResult) string {
	h := fnv.New64a()
	for _, op := range res.History {
		fmt.Fprintf(h, "%d/%d/%d/%d/%d/%v|", op.Client, op.Idx, op.Invoke, op.Return, int64(op.TReturn), op.Lost)
		h.Write([]byte(op.Reply.Canon()))
	}
	return fmt.Sprintf("%016x", h.Sum64())
}
