package main

import (
	"encoding/json"
	"fmt"
	"os"
	"path/filepath"
	"sort"
	"strconv"
	"strings"
	"sync"
	"time"
)

// selftestDeterminism proves the determinism contract on a sample: for every
// claimed property the same seeds are executed in several fresh processes at
// GOMAXPROCS 1, 4 and 16, and the per-run fingerprints (schedule fingerprint =
// hash of the whole event log, history fingerprint = hash of every request
// and reply with its step stamps, steps, simulated time, end reason,
// violation fingerprint) must be identical in all of them.
// Exit 0 = identical everywhere, 2 = a divergence (harness trouble).
func selftestDeterminism(args []string) {
	propsList := []string{"C01", "C02", "C03", "C04", "C05", "C06", "C07", "C08", "C09", "C10", "C11", "C12", "C13", "C14", "C15", "C16", "C17", "C19", "C20"}
	runs, procs := 40, 6
	tier := "quick"
	for i := 0; i < len(args); i++ {
		switch args[i] {
		case "--runs":
			i++
			runs, _ = strconv.Atoi(args[i])
		case "--procs":
			i++
			procs, _ = strconv.Atoi(args[i])
		case "--tier":
			i++
			tier = args[i]
		case "--props":
			i++
			propsList = strings.Split(args[i], ",")
		}
	}
	baseSeed := uint64(1)
	if s := os.Getenv("VERIF_SEED"); s != "" {
		if v, err := strconv.ParseUint(s, 10, 64); err == nil {
			baseSeed = v
		}
	}
	t0 := time.Now()
	bin := build(false)
	binRace := ""
	scratch, err := os.MkdirTemp("", "vdet-")
	if err != nil {
		fatal2("%v", err)
	}
	defer os.RemoveAll(scratch)
	raceLogBase = filepath.Join(scratch, "race")
	cpus := []string{"1", "4", "16"}
	type key struct {
		prop string
		seed uint64
	}
	type obs struct {
		proc int
		fp   string
	}
	var mu sync.Mutex
	seen := map[key][]obs{}
	trouble := []string{}
	sem := make(chan struct{}, 16)
	var wg sync.WaitGroup
	for _, prop := range propsList {
		b := bin
		if prop == "C16" {
			if binRace == "" {
				binRace = build(true)
			}
			b = binRace
		}
		for p := 0; p < procs; p++ {
			wg.Add(1)
			sem <- struct{}{}
			go func(prop string, p int, b string) {
				defer wg.Done()
				defer func() { <-sem }()
				from := baseSeed*1000003 + 7
				outFile := filepath.Join(scratch, fmt.Sprintf("det-%s-%d.jsonl", prop, p))
				for part := 0; part < 50; part++ {
					so, err := runWorker(b, map[string]string{
						"VS_MODE": "run", "VS_PROP": prop, "VS_FROM": strconv.FormatUint(from, 10), "VS_N": strconv.Itoa(int(baseSeed*1000003 + 7 + uint64(runs) - from)),
						"VS_TIER": tier, "VS_OUT": outFile, "VS_CPU": cpus[p%len(cpus)],
					}, 20*time.Minute)
					_, _, finished, resume := readRecords(outFile)
					if finished {
						break
					}
					if resume > from {
						from = resume
						continue
					}
					if bb, e := os.ReadFile(outFile); e == nil {
						if i := strings.LastIndex(string(bb), `{"hang":`); i >= 0 {
							os.MkdirAll(filepath.Join(verifDir, "out"), 0o755)
							os.WriteFile(filepath.Join(verifDir, "out", fmt.Sprintf("det-hang-%s-%d.json", prop, p)), bb[i:], 0o644)
						}
					}
					mu.Lock()
					trouble = append(trouble, fmt.Sprintf("%s proc %d: worker ended early (%v)\n%s", prop, p, err, tail(so, 10)))
					mu.Unlock()
					break
				}
				recs, _, _, _ := readRecords(outFile)
				mu.Lock()
				for _, r := range recs {
					vfp := ""
					if r.Viol != nil {
						vfp = r.Viol.Fp
					}
					fb, _ := json.Marshal(r.Faults)
					fp := fmt.Sprintf("sched=%s hist=%s steps=%d tsteps=%d sim=%d cmds=%d replies=%d end=%s viol=%s faults=%s", r.SchedFp, r.HistFp, r.Steps, r.TaskSteps, r.SimTimeNs, r.Cmds, r.Replies, r.End, vfp, fb)
					k := key{prop, r.Seed}
					seen[k] = append(seen[k], obs{p, fp})
				}
				mu.Unlock()
			}(prop, p, b)
		}
	}
	wg.Wait()
	perProp := map[string][2]int{}
	var diverged []string
	for k, os_ := range seen {
		c := perProp[k.prop]
		c[0]++
		same := len(os_) == procs
		for _, o := range os_ {
			if o.fp != os_[0].fp {
				same = false
			}
		}
		if !same {
			c[1]++
			var sb strings.Builder
			fmt.Fprintf(&sb, "%s seed %d (%d of %d processes reported):\n", k.prop, k.seed, len(os_), procs)
			for _, o := range os_ {
				fmt.Fprintf(&sb, "   proc %d (GOMAXPROCS %s): %s\n", o.proc, cpus[o.proc%len(cpus)], o.fp)
			}
			diverged = append(diverged, sb.String())
		}
		perProp[k.prop] = c
	}
	sort.Strings(diverged)
	names := make([]string, 0, len(perProp))
	for p := range perProp {
		names = append(names, p)
	}
	sort.Strings(names)
	for _, p := range names {
		fmt.Printf("determinism %s: %d seeds x %d processes (GOMAXPROCS 1/4/16), %d diverged\n", p, perProp[p][0], procs, perProp[p][1])
	}
	out := map[string]any{"seeds_per_property": runs, "processes_per_seed": procs, "gomaxprocs": cpus, "tier": tier, "per_property": perProp, "diverged": diverged, "trouble": trouble, "wall_seconds": time.Since(t0).Seconds()}
	bb, _ := json.MarshalIndent(out, "", " ")
	os.MkdirAll(filepath.Join(verifDir, "out"), 0o755)
	os.WriteFile(filepath.Join(verifDir, "out", "selftest-determinism.json"), bb, 0o644)
	for _, d := range diverged {
		fmt.Print(d)
	}
	for _, d := range trouble {
		fmt.Println("HARNESS-TROUBLE:", d)
	}
	if len(diverged) > 0 || len(trouble) > 0 || len(names) != len(propsList) {
		fmt.Println("determinism self-test FAILED")
		os.Exit(2)
	}
	fmt.Println("determinism self-test passed")
}
