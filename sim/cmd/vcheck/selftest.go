package main

import (
	"encoding/json"
	"fmt"
	"os"
	"path/filepath"
	"sort"
	"strconv"
	"strings"
	"sync"
	"time"
)

// selftestDeterminism proves the determinism contract on a sample: for every
// claimed property the same seeds are executed in several fresh processes at
// GOMAXPROCS 1, 4 and 16, and the per-run fingerprints (schedule fingerprint =
// hash of the whole event log, history fingerprint = hash of every request
// and reply with its step stamps, steps, simulated time, end reason,
// violation fingerprint) must be identical in all of them.
// Exit 0 = identical everywhere, 2 = a divergence (harness trouble).
func selftestDeterminism(args []string) {
	propsList := []string{"C01", "C02", "C03", "C04", "C05", "C06", "C07", "C08", "C09", "C10", "C11", "C12", "C13", "C14", "C15", "C16", "C17", "C19", "C20"}
	runs, procs := 40, 6
	tier := "quick"
	for i := 0; i < len(args); i++ {
		switch args[i] {
		case "--runs":
			i++
			runs, _ = strconv.Atoi(args[i])
		case "--procs":
			i++
			procs, _ = strconv.Atoi(args[i])
		case "--tier":
			i++
			tier = args[i]
		case "--props":
			i++
			propsList = strings.Split(args[i], ",")
		}
	}
	baseSeed := uint64(1)
	if s := os.Getenv("VERIF_SEED"); s != "" {
		if v, err := strconv.ParseUint(s, 10, 64); err == nil {
			baseSeed = v
		}
	}
	t0 := time.Now()
	bin := build(false)
	binRace := ""
	scratch, err := os.MkdirTemp("", "vdet-")
	if err != nil {
		fatal2("%v", err)
	}
	defer os.RemoveAll(scratch)
	cleanupDirs = append(cleanupDirs, scratch)
	workerTmp = filepath.Join(scratch, "tmp")
	os.MkdirAll(workerTmp, 0o755)
	raceLogBase = filepath.Join(scratch, "race")
	cpus := []string{"1", "4", "16"}
	type key struct {
		prop string
		seed uint64
	}
	type obs struct {
		proc int
		fp   string
	}
	var mu sync.Mutex
	seen := map[key][]obs{}
	trouble := []string{}
	sem := make(chan struct{}, 16)
	var wg sync.WaitGroup
	for _, prop := range propsList {
		b := bin
		if prop == "C16" {
			if binRace == "" {
				binRace = build(true)
			}
			b = binRace
		}
		for p := 0; p < procs; p++ {
			wg.Add(1)
			sem <- struct{}{}
			go func(prop string, p int, b string) {
				defer wg.Done()
				defer func() { <-sem }()
				from := baseSeed*1000003 + 7
				outFile := filepath.Join(scratch, fmt.Sprintf("det-%s-%d.jsonl", prop, p))
				for part := 0; part < 50; part++ {
					so, err := runWorker(b, map[string]string{
						"VS_MODE": "run", "VS_PROP": prop, "VS_FROM": strconv.FormatUint(from, 10), "VS_N": strconv.Itoa(int(baseSeed*1000003 + 7 + uint64(runs) - from)),
						"VS_TIER": tier, "VS_OUT": outFile, "VS_CPU": cpus[p%len(cpus)],
					}, 20*time.Minute)
					_, _, finished, resume := readRecords(outFile)
					if finished {
						break
					}
					if resume > from {
						from = resume
						continue
					}
					if bb, e := os.ReadFile(outFile); e == nil {
						if i := strings.LastIndex(string(bb), `{"hang":`); i >= 0 {
							os.MkdirAll(filepath.Join(verifDir, "out"), 0o755)
							os.WriteFile(filepath.Join(verifDir, "out", fmt.Sprintf("det-hang-%s-%d.json", prop, p)), bb[i:], 0o644)
						}
					}
					mu.Lock()
					trouble = append(trouble, fmt.Sprintf("%s proc %d: worker ended early (%v)\n%s", prop, p, err, tail(so, 10)))
					mu.Unlock()
					break
				}
				recs, _, _, _ := readRecords(outFile)
				mu.Lock()
				for _, r := range recs {
					vfp := ""
					if r.Viol != nil {
						vfp = r.Viol.Fp
					}
					fb, _ := json.Marshal(r.Faults)
					fp := fmt.Sprintf("sched=%s hist=%s steps=%d tsteps=%d sim=%d cmds=%d replies=%d end=%s viol=%s faults=%s", r.SchedFp, r.HistFp, r.Steps, r.TaskSteps, r.SimTimeNs, r.Cmds, r.Replies, r.End, vfp, fb)
					k := key{prop, r.Seed}
					seen[k] = append(seen[k], obs{p, fp})
				}
				mu.Unlock()
			}(prop, p, b)
		}
	}
	wg.Wait()
	perProp := map[string][2]int{}
	var diverged []string
	for k, os_ := range seen {
		c := perProp[k.prop]
		c[0]++
		same := len(os_) == procs
		for _, o := range os_ {
			if o.fp != os_[0].fp {
				same = false
			}
		}
		if !same {
			c[1]++
			var sb strings.Builder
			fmt.Fprintf(&sb, "%s seed %d (%d of %d processes reported):\n", k.prop, k.seed, len(os_), procs)
			for _, o := range os_ {
				fmt.Fprintf(&sb, "   proc %d (GOMAXPROCS %s): %s\n", o.proc, cpus[o.proc%len(cpus)], o.fp)
			}
			diverged = append(diverged, sb.String())
		}
		perProp[k.prop] = c
	}
	sort.Strings(diverged)
	names := make([]string, 0, len(perProp))
	for p := range perProp {
		names = append(names, p)
	}
	sort.Strings(names)
	for _, p := range names {
		fmt.Printf("determinism %s: %d seeds x %d processes (GOMAXPROCS 1/4/16), %d diverged\n", p, perProp[p][0], procs, perProp[p][1])
	}
	out := map[string]any{"seeds_per_property": runs, "processes_per_seed": procs, "gomaxprocs": cpus, "tier": tier, "per_property": perProp, "diverged": diverged, "trouble": trouble, "wall_seconds": time.Since(t0).Seconds()}
	bb, _ := json.MarshalIndent(out, "", " ")
	os.MkdirAll(filepath.Join(verifDir, "out"), 0o755)
	os.WriteFile(filepath.Join(verifDir, "out", "selftest-determinism.json"), bb, 0o644)
	for _, d := range diverged {
		fmt.Print(d)
	}
	for _, d := range trouble {
		fmt.Println("HARNESS-TROUBLE:", d)
	}
	if len(diverged) > 0 || len(trouble) > 0 || len(names) != len(propsList) {
		fmt.Println("determinism self-test FAILED")
		cleanup()
		os.Exit(2)
	}
	fmt.Println("determinism self-test passed")
}

// selftestRace proves that serialising the emulator's goroutines does not blind
// the race detector: a planted unsynchronised global touched at every yield
// point must be reported in every run, the same global behind a mutex never.
func selftestRace() {
	bin := build(true)
	scratch, err := os.MkdirTemp("", "vrace-")
	if err != nil {
		fatal2("%v", err)
	}
	defer os.RemoveAll(scratch)
	cleanupDirs = append(cleanupDirs, scratch)
	workerTmp = filepath.Join(scratch, "tmp")
	os.MkdirAll(workerTmp, 0o755)
	raceLogBase = filepath.Join(scratch, "race")
	ok := true
	for _, mode := range []string{"race", "guarded"} {
		outFile := filepath.Join(scratch, "st-"+mode+".jsonl")
		from := uint64(1000003)
		for part := 0; part < 20; part++ {
			_, _ = runWorker(bin, map[string]string{"VS_MODE": "run", "VS_PROP": "C16", "VS_FROM": strconv.FormatUint(from, 10), "VS_N": strconv.Itoa(int(1000003 + 12 - from)),
				"VS_TIER": "quick", "VS_OUT": outFile, "VS_PLANT_RACE": mode}, 10*time.Minute)
			_, _, finished, resume := readRecords(outFile)
			if finished || resume <= from {
				break
			}
			from = resume
		}
		recs, _, _, _ := readRecords(outFile)
		planted, other, clean := 0, 0, 0
		for _, r := range recs {
			switch {
			case r.Viol == nil:
				clean++
			case strings.Contains(r.Viol.Msg, "plantedAccess"):
				planted++
			default:
				other++
			}
		}
		fmt.Printf("selftest-race mode=%s: %d runs, %d report the planted race, %d other reports, %d clean\n", mode, len(recs), planted, other, clean)
		// the detector reports one pair of stacks once per process, so a later
		// run of the same worker that only repeats known pairs stays silent
		if mode == "race" && (planted == 0 || planted < len(recs)/2 || len(recs) == 0) {
			ok = false
		}
		if mode == "guarded" && (planted != 0 || other != 0 || len(recs) == 0) {
			ok = false
		}
	}
	if !ok {
		fmt.Println("race self-test FAILED")
		cleanup()
		os.Exit(2)
	}
	fmt.Println("race self-test passed")
}

// selftestHooks greps /repo for lock sites and goroutine bodies that the
// simulator would not see: every Lock()/Unlock() on a sync.Mutex of the
// emulator has its simBeforeLock/simAfterUnlock line next to it, every
// goroutine body begins with simTaskBegin. An unhooked site is exit 2.
func selftestHooks() {
	repo := repoDir
	ents, err := os.ReadDir(repo)
	if err != nil {
		fatal2("%v", err)
	}
	var bad []string
	nlock, ngo := 0, 0
	for _, e := range ents {
		n := e.Name()
		if !strings.HasSuffix(n, ".go") || strings.HasSuffix(n, "_test.go") || strings.HasPrefix(n, "simhooks_") || n == "sim_inspect.go" ||
			n == "redisTestClient.go" || n == "realTestClient.go" || n == "test-server-simple.go" {
			continue
		}
		b, err := os.ReadFile(filepath.Join(repo, n))
		if err != nil {
			fatal2("%v", err)
		}
		lines := strings.Split(string(b), "\n")
		prevCode := func(i int) string {
			for j := i - 1; j >= 0; j-- {
				if t := strings.TrimSpace(lines[j]); t != "" && !strings.HasPrefix(t, "//") {
					return t
				}
			}
			return ""
		}
		nextCode := func(i int) string {
			for j := i + 1; j < len(lines); j++ {
				if t := strings.TrimSpace(lines[j]); t != "" && !strings.HasPrefix(t, "//") {
					return t
				}
			}
			return ""
		}
		for i, ln := range lines {
			t := strings.TrimSpace(ln)
			if strings.HasPrefix(t, "//") {
				continue
			}
			switch {
			case strings.HasSuffix(t, ".Lock()") && !strings.HasPrefix(t, "defer"):
				nlock++
				if !strings.Contains(prevCode(i), "simBeforeLock(") {
					bad = append(bad, fmt.Sprintf("%s:%d: %s  (no simBeforeLock before it)", n, i+1, t))
				}
			case strings.HasPrefix(t, "defer ") && strings.HasSuffix(t, ".Unlock()"):
				if !strings.Contains(prevCode(i), "defer simAfterUnlock(") {
					bad = append(bad, fmt.Sprintf("%s:%d: %s  (no defer simAfterUnlock before it)", n, i+1, t))
				}
			case strings.HasSuffix(t, ".Unlock()"):
				if !strings.Contains(nextCode(i), "simAfterUnlock(") {
					bad = append(bad, fmt.Sprintf("%s:%d: %s  (no simAfterUnlock after it)", n, i+1, t))
				}
			case strings.HasPrefix(t, "go func()") || (strings.HasPrefix(t, "go ") && strings.HasSuffix(t, ")")):
				// since hook H9 goroutines are started through simGo (their start is a
				// schedule point); a bare go statement is an unhooked goroutine
				ngo++
				bad = append(bad, fmt.Sprintf("%s:%d: %s  (goroutine not started through simGo)", n, i+1, t))
			case strings.HasPrefix(t, "simGo("):
				ngo++
				// the body (or the named function) must call simTaskBegin
				body := ""
				if strings.HasPrefix(t, "simGo(func()") {
					for j := i + 1; j < len(lines) && j < i+8; j++ {
						body += lines[j]
					}
				} else {
					name := strings.TrimSuffix(strings.TrimPrefix(t, "simGo("), ")")
					if k := strings.LastIndexByte(name, '.'); k >= 0 {
						name = name[k+1:]
					}
					if k := strings.IndexByte(name, '('); k >= 0 {
						name = name[:k]
					}
					for j, l2 := range lines {
						if strings.HasPrefix(l2, "func ") && strings.Contains(l2, ") "+name+"(") || strings.HasPrefix(l2, "func "+name+"(") {
							for q := j + 1; q < len(lines) && q < j+8; q++ {
								body += lines[q]
							}
						}
					}
				}
				if !strings.Contains(body, "simTaskBegin(") {
					bad = append(bad, fmt.Sprintf("%s:%d: %s  (goroutine body does not start with simTaskBegin)", n, i+1, t))
				}
			}
		}
	}
	fmt.Printf("selftest-hooks: %d Lock() sites and %d go statements examined, %d unhooked\n", nlock, ngo, len(bad))
	for _, b := range bad {
		fmt.Println("  " + b)
	}
	if len(bad) > 0 || nlock == 0 {
		fmt.Println("hook self-test FAILED")
		cleanup()
		os.Exit(2)
	}
	fmt.Println("hook self-test passed")
}
