// vcheck drives the simulation workers for one property: builds the worker
// binary from /repo's working tree, fans seed slices out to worker processes,
// classifies what they report (known finding / new violation / harness
// trouble), minimises and re-confirms new violations, and writes the evidence.
//
// Exit codes: 0 property held on everything explored, 1 VIOLATION, 2 harness trouble.
package main

import (
	"bufio"
	"encoding/json"
	"fmt"
	"os"
	"os/exec"
	"path/filepath"
	"runtime"
	"sort"
	"strconv"
	"strings"
	"sync"
	"time"
)

// Registered commands run with the defaults (/verif against /repo's working
// tree). VERIF_DIR / VERIF_REPO redirect a background sweep (vp run --with-repo)
// to a snapshot, so that edits in /verif and patches tried in /repo do not
// disturb it; such a sweep is exploration, not evidence.
var verifDir = envOr("VERIF_DIR", "/verif")
var simDir = filepath.Join(verifDir, "sim")
var repoDir = envOr("VERIF_REPO", "/repo")

func envOr(k, d string) string {
	if v := os.Getenv(k); v != "" {
		return v
	}
	return d
}

// modfileArgs: when the repository under test is not /repo, the worker is built
// with a copy of go.mod whose replace directive points at it.
func modfileArgs() []string {
	if repoDir == "/repo" {
		return nil
	}
	b, err := os.ReadFile(filepath.Join(simDir, "go.mod"))
	if err != nil {
		fatal2("%v", err)
	}
	alt := filepath.Join(verifDir, "bin", "alt.go.mod")
	os.MkdirAll(filepath.Dir(alt), 0o755)
	os.WriteFile(alt, []byte(strings.Replace(string(b), "=> /repo", "=> "+repoDir, 1)), 0o644)
	if sum, err := os.ReadFile(filepath.Join(simDir, "go.sum")); err == nil {
		os.WriteFile(filepath.Join(verifDir, "bin", "alt.go.sum"), sum, 0o644)
	}
	return []string{"-modfile=" + alt}
}

type violation struct {
	Oracle string `json:"oracle"`
	Fp     string `json:"fp"`
	Msg    string `json:"msg"`
	Step   int64  `json:"step"`
}

type runRecord struct {
	Begin      *uint64        `json:"begin,omitempty"`
	Done       bool           `json:"done,omitempty"`
	Resume     uint64         `json:"resume,omitempty"`
	Seed       uint64         `json:"seed"`
	Class      string         `json:"class,omitempty"`
	End        string         `json:"end"`
	Steps      int64          `json:"steps"`
	TaskSteps  int64          `json:"taskSteps"`
	SimTimeNs  int64          `json:"simTimeNs"`
	Cmds       int            `json:"cmds"`
	Replies    int            `json:"replies"`
	SchedFp    string         `json:"schedFp"`
	HistFp     string         `json:"histFp,omitempty"`
	Nontrivial bool           `json:"nontrivial"`
	Faults     map[string]int `json:"faults,omitempty"`
	Probes     map[string]int `json:"probes,omitempty"`
	Extra      map[string]int `json:"extra,omitempty"`
	Viol       *violation     `json:"viol,omitempty"`
	Replay     string         `json:"replay,omitempty"`
	Sample     any            `json:"sample,omitempty"`
}

type knownFinding struct {
	Property     string     `json:"property"`
	Id           string     `json:"id"`
	Status       string     `json:"status"` // open | fixed
	Fp           []string   `json:"fp"`     // glob patterns over violation fingerprints
	What         string     `json:"what"`
	Sentinel     [][]string `json:"sentinel,omitempty"`      // script that reaches the finding directly
	SentinelPlan string     `json:"sentinel_plan,omitempty"` // or a named plan built into the worker
	Avoid        string     `json:"avoid,omitempty"`
	Commit       string     `json:"commit,omitempty"`
}

type propInfo struct {
	Id              string   `json:"id"`
	Rule            string   `json:"rule"`
	NeedProbes      []string `json:"needProbes"`
	QuickRuns       int      `json:"quickRuns"`
	ThoroughRuns    int      `json:"thoroughRuns"`
	Race            bool     `json:"race"`
	Level           string   `json:"level"`
	Explanation     string   `json:"explanation"`
	Assumptions     []string `json:"assumptions"`
	Real            []string `json:"real"`
	Stub            []string `json:"stub"`
	QuickSeconds    int      `json:"quickSeconds"`
	ThoroughSeconds int      `json:"thoroughSeconds"`
}

var raceLogBase string

func env() []string {
	e := os.Environ()
	e = append(e, "GOFLAGS=-mod=mod", "GOPROXY=off", "GOSUMDB=off", "GOTOOLCHAIN=local", "CGO_ENABLED=1")
	if raceLogBase != "" {
		e = append(e, "GORACE=halt_on_error=0 log_path="+raceLogBase)
	}
	return e
}

func fatal2(format string, a ...any) {
	fmt.Printf("HARNESS-TROUBLE: "+format+"\n", a...)
	cleanup()
	os.Exit(2)
}

func build(race bool) string {
	out := filepath.Join(verifDir, "bin", "simworker")
	args := []string{"test", "-tags", "verif", "-c", "-o", out}
	if race {
		out += ".race"
		args = []string{"test", "-tags", "verif", "-race", "-c", "-o", out}
	}
	args = append(args, modfileArgs()...)
	args = append(args, ".")
	cmd := exec.Command("go1.26.8", args...)
	cmd.Dir = simDir
	cmd.Env = env()
	b, err := cmd.CombinedOutput()
	if err != nil {
		fatal2("building the simulation worker from %s's working tree failed:\n%s", repoDir, string(b))
	}
	return out
}

func runWorker(bin string, extra map[string]string, timeout time.Duration) (stdout string, err error) {
	cpu := "1"
	if c := extra["VS_CPU"]; c != "" {
		cpu = c
	}
	cmd := exec.Command(bin, "-test.run", "^TestWorker$", "-test.timeout", "0", "-test.cpu", cpu)
	cmd.Env = env()
	for k, v := range extra {
		cmd.Env = append(cmd.Env, k+"="+v)
	}
	if workerTmp != "" {
		cmd.Env = append(cmd.Env, "TMPDIR="+workerTmp)
	}
	cmd.Dir = simDir
	var sb strings.Builder
	cmd.Stdout = &sb
	cmd.Stderr = &sb
	if err := cmd.Start(); err != nil {
		return "", err
	}
	done := make(chan error, 1)
	go func() { done <- cmd.Wait() }()
	select {
	case err = <-done:
	case <-time.After(timeout):
		cmd.Process.Kill()
		<-done
		err = fmt.Errorf("worker timed out after %v", timeout)
	}
	return sb.String(), err
}

func globMatch(pat, s string) bool {
	ok, _ := filepath.Match(pat, s)
	if ok {
		return true
	}
	// filepath.Match treats '/' specially; fingerprints may contain it
	return strings.ReplaceAll(pat, "/", "_") != pat && func() bool {
		ok, _ := filepath.Match(strings.ReplaceAll(pat, "/", "_"), strings.ReplaceAll(s, "/", "_"))
		return ok
	}()
}

func loadKnown(prop string) []knownFinding {
	var out []knownFinding
	f, err := os.Open(filepath.Join(verifDir, "known_findings.jsonl"))
	if err != nil {
		return nil
	}
	defer f.Close()
	sc := bufio.NewScanner(f)
	sc.Buffer(make([]byte, 1<<20), 1<<24)
	for sc.Scan() {
		line := strings.TrimSpace(sc.Text())
		if line == "" || strings.HasPrefix(line, "#") {
			continue
		}
		var k knownFinding
		if err := json.Unmarshal([]byte(line), &k); err != nil {
			fatal2("known_findings.jsonl: %v", err)
		}
		if k.Property == prop {
			out = append(out, k)
		}
	}
	return out
}

func main() {
	if len(os.Args) < 2 {
		fmt.Println("usage: vcheck <property> [--tier quick|thorough] [--replay file] [--seconds n] [--runs n] [--workers n]")
		os.Exit(2)
	}
	prop := os.Args[1]
	switch prop {
	case "selftest-determinism":
		selftestDeterminism(os.Args[2:])
		return
	case "selftest-race":
		selftestRace()
		return
	case "selftest-hooks":
		selftestHooks()
		return
	}
	tier := os.Getenv("VERIF_TIER")
	replay := ""
	seconds, runs, workers := 0, 0, runtime.NumCPU()
	verbose := false
	for i := 2; i < len(os.Args); i++ {
		switch os.Args[i] {
		case "--tier":
			i++
			tier = os.Args[i]
		case "--replay":
			i++
			replay = os.Args[i]
		case "--seconds":
			i++
			seconds, _ = strconv.Atoi(os.Args[i])
		case "--runs":
			i++
			runs, _ = strconv.Atoi(os.Args[i])
		case "--workers":
			i++
			workers, _ = strconv.Atoi(os.Args[i])
		case "-v":
			verbose = true
		}
	}
	if tier == "" {
		tier = "quick"
	}
	if v, err := strconv.Atoi(os.Getenv("VERIF_WORKERS")); err == nil && v > 0 {
		workers = v
	}
	if workers > 16 {
		workers = 16
	}
	baseSeed := uint64(1)
	if s := os.Getenv("VERIF_SEED"); s != "" {
		if v, err := strconv.ParseUint(s, 10, 64); err == nil {
			baseSeed = v
		}
	}
	t0 := time.Now()

	if replay != "" {
		// an unreadable replay file is harness trouble, never a violation
		if abs, err := filepath.Abs(replay); err == nil {
			replay = abs
		}
		if b, err := os.ReadFile(replay); err != nil || !json.Valid(b) {
			fmt.Printf("HARNESS: replay file %s cannot be read (%v)\n", replay, err)
			os.Exit(2)
		}
		// the replay file names its property; a race replay needs the race build
		bin := build(strings.HasPrefix(prop, "C16"))
		if d, err := os.MkdirTemp("", "vreplay-"); err == nil {
			cleanupDirs = append(cleanupDirs, d)
			raceLogBase = filepath.Join(d, "race")
			workerTmp = filepath.Join(d, "tmp")
			os.MkdirAll(workerTmp, 0o755)
		}
		ex := map[string]string{"VS_MODE": "replay", "VS_REPLAY": replay}
		if verbose {
			ex["VS_VERBOSE"] = "1"
		}
		out, err := runWorker(bin, ex, 10*time.Minute)
		fmt.Print(out)
		if err != nil {
			fmt.Printf("worker ended abnormally: %v\n", err)
		}
		if strings.Contains(out, `"same":true`) || (err != nil && !strings.Contains(out, `"replayed":true`)) {
			fmt.Printf("VIOLATION property=%s replay=%s\n", prop, replay)
			cleanup()
			os.Exit(1)
		}
		fmt.Println("replay did not reproduce the recorded violation")
		cleanup()
		os.Exit(0)
	}

	bin := build(false)
	// property info from the worker itself
	infoOut, err := runWorker(bin, map[string]string{"VS_MODE": "info", "VS_PROP": prop}, time.Minute)
	var info propInfo
	for _, ln := range strings.Split(infoOut, "\n") {
		if strings.HasPrefix(ln, "{") && json.Unmarshal([]byte(ln), &info) == nil && info.Id != "" {
			break
		}
	}
	if err != nil || info.Id == "" {
		fatal2("worker does not know property %s: %v\n%s", prop, err, infoOut)
	}
	if info.Race {
		bin = build(true)
	}
	total := info.QuickRuns
	budget := info.QuickSeconds
	if tier == "thorough" {
		total = info.ThoroughRuns
		budget = info.ThoroughSeconds
	}
	if runs > 0 {
		total = runs
	}
	if seconds > 0 {
		budget = seconds
	}
	if budget == 0 {
		budget = 90
	}
	scratch, err := os.MkdirTemp("", "vcheck-"+prop+"-")
	if err != nil {
		fatal2("%v", err)
	}
	defer os.RemoveAll(scratch)
	cleanupDirs = append(cleanupDirs, scratch)
	// the workers' own temporary directories (one per run) live inside the
	// scratch directory, so that a worker that is killed or leaves through
	// os.Exit cannot leave them behind
	workerTmp = filepath.Join(scratch, "tmp")
	os.MkdirAll(workerTmp, 0o755)
	raceLogBase = filepath.Join(scratch, "race")
	known := loadKnown(prop)

	// ---- fan out
	firstSeed := baseSeed * 1000003
	slice := 150
	if total < workers*slice {
		slice = (total + workers - 1) / workers
		if slice < 1 {
			slice = 1
		}
	}
	type job struct {
		from uint64
		n    int
		idx  int
	}
	jobs := make(chan job, 100000)
	nj := 0
	for off := 0; off < total; off += slice {
		n := slice
		if off+n > total {
			n = total - off
		}
		jobs <- job{firstSeed + uint64(off), n, nj}
		nj++
	}
	close(jobs)
	deadline := time.Now().Add(time.Duration(budget) * time.Second)
	var mu sync.Mutex
	var recs []runRecord
	var deaths []string
	var wg sync.WaitGroup
	for w := 0; w < workers; w++ {
		wg.Add(1)
		go func() {
			defer wg.Done()
			for j := range jobs {
				end := j.from + uint64(j.n)
				for part := 0; j.from < end; part++ {
					left := time.Until(deadline)
					if left <= 0 {
						return
					}
					outFile := filepath.Join(scratch, fmt.Sprintf("out-%d-%d.jsonl", j.idx, part))
					so, err := runWorker(bin, map[string]string{
						"VS_MODE": "run", "VS_PROP": prop, "VS_FROM": strconv.FormatUint(j.from, 10), "VS_N": strconv.Itoa(int(end - j.from)),
						"VS_TIER": tier, "VS_OUT": outFile, "VS_REPLAY_DIR": scratch, "VS_SECONDS": strconv.Itoa(int(left.Seconds()) + 1),
					}, left+5*time.Minute)
					rs, lastBegin, finished, resume := readRecords(outFile)
					mu.Lock()
					recs = append(recs, rs...)
					if !finished && resume > j.from {
						// the worker abandoned a wedged run after recording it; carry on with the rest of the slice
						j.from = resume
						mu.Unlock()
						continue
					}
					if pre := filepath.Join(scratch, fmt.Sprintf("pre-%s-%d.json", prop, lastBegin)); !finished && fileExists(pre) && !strings.Contains(so, "watchdog") && (prop == "C13" || emulatorDeath(so)) {
						// the process died inside a run whose plan is on disk: a candidate process-killer
						msg := "the worker process died while executing this run:\n" + tail(so, 25)
						recs = append(recs, runRecord{Seed: lastBegin, End: "process-death", Viol: &violation{Oracle: "process-death", Fp: "process-death:" + deathClass(so), Msg: msg}, Replay: pre})
						j.from = lastBegin + 1
						mu.Unlock()
						continue
					}
					if !finished {
						hangInfo := ""
						if b, e := os.ReadFile(outFile); e == nil {
							if i := strings.LastIndex(string(b), `{"hang":`); i >= 0 {
								hf := filepath.Join(verifDir, "out", fmt.Sprintf("hang-%s-%d.json", prop, lastBegin))
								os.MkdirAll(filepath.Dir(hf), 0o755)
								os.WriteFile(hf, b[i:], 0o644)
								hangInfo = " (wall-clock watchdog fired; goroutine stacks in " + hf + ")"
								// a goroutine that is busy inside emulator code when the wall-clock
								// watchdog fires (60 s of real time for one run) is an emulator that
								// spins without ever reaching a schedule point: a violation of whatever
								// property was running, not harness trouble
								var hr struct {
									Stacks string `json:"stacks"`
								}
								pre := filepath.Join(scratch, fmt.Sprintf("pre-%s-%d.json", prop, lastBegin))
								if json.Unmarshal(b[i:], &hr) == nil && fileExists(pre) {
									if where := emulatorSpin(hr.Stacks); where != "" {
										msg := "the run did not end within 60 s of real time; a goroutine is busy inside emulator code without reaching a schedule point:\n" + where
										recs = append(recs, runRecord{Seed: lastBegin, End: "process-wedged", Viol: &violation{Oracle: "process-death", Fp: "process-wedged:" + wedgeClass(where), Msg: msg}, Replay: pre})
										j.from = lastBegin + 1
										mu.Unlock()
										continue
									}
								}
							}
						}
						deaths = append(deaths, fmt.Sprintf("seed %d: worker ended without finishing its slice (%v)%s\n%s", lastBegin, err, hangInfo, tail(so, 15)))
					}
					mu.Unlock()
					break
				}
			}
		}()
	}
	wg.Wait()
	wall := time.Since(t0).Seconds()

	// ---- classify
	sort.Slice(recs, func(i, j int) bool { return recs[i].Seed < recs[j].Seed })
	knownHit := map[string]int{}
	type newViol struct {
		fp   string
		recs []runRecord
	}
	newBy := map[string]*newViol{}
	for _, r := range recs {
		if r.Viol == nil {
			continue
		}
		matched := false
		for _, k := range known {
			if k.Status != "open" {
				continue
			}
			for _, p := range k.Fp {
				if globMatch(p, r.Viol.Fp) {
					knownHit[k.Id]++
					matched = true
				}
			}
		}
		if !matched {
			nv := newBy[r.Viol.Fp]
			if nv == nil {
				nv = &newViol{fp: r.Viol.Fp}
				newBy[r.Viol.Fp] = nv
			}
			nv.recs = append(nv.recs, r)
		}
	}
	// sentinels: show that each open finding is still there
	for _, k := range known {
		if k.Status != "open" || (len(k.Sentinel) == 0 && k.SentinelPlan == "") {
			continue
		}
		sb, _ := json.Marshal(k.Sentinel)
		so, _ := runWorker(bin, map[string]string{"VS_MODE": "sentinel", "VS_PROP": prop, "VS_SCRIPT": string(sb), "VS_SENTINEL_PLAN": k.SentinelPlan}, 2*time.Minute)
		for _, ln := range strings.Split(so, "\n") {
			var m struct {
				Sentinel bool       `json:"sentinel"`
				Viol     *violation `json:"viol"`
			}
			if strings.HasPrefix(ln, "{") && json.Unmarshal([]byte(ln), &m) == nil && m.Sentinel && m.Viol != nil {
				for _, p := range k.Fp {
					if globMatch(p, m.Viol.Fp) {
						knownHit[k.Id]++
					}
				}
			}
		}
	}
	for _, k := range known {
		if k.Status == "open" && knownHit[k.Id] > 0 {
			fmt.Printf("KNOWN-FINDING: property=%s %s: %s\n", prop, k.Id, k.What)
		}
	}

	exit := 0
	violations := 0
	var fps []string
	for fp := range newBy {
		fps = append(fps, fp)
	}
	sort.Strings(fps)
	os.MkdirAll(filepath.Join(verifDir, "replays"), 0o755)
	for i, fp := range fps {
		nv := newBy[fp]
		violations += len(nv.recs)
		if i >= 4 {
			fmt.Printf("further violation class %s (%d runs), not minimised\n", fp, len(nv.recs))
			if os.Getenv("VERIF_SHOW_ALL") != "" && nv.recs[0].Viol != nil {
				fmt.Printf("  seed %d: %s\n", nv.recs[0].Seed, nv.recs[0].Viol.Msg)
			}
			continue
		}
		r := nv.recs[0]
		for _, x := range nv.recs {
			// workers write replay files for their first violations only
			if x.Replay != "" {
				r = x
				break
			}
		}
		fmt.Printf("violation class %s in %d run(s), first seed %d:\n  %s\n", fp, len(nv.recs), r.Seed, strings.ReplaceAll(r.Viol.Msg, "\n", "\n  "))
		if r.Replay == "" {
			fmt.Println("  (no replay file was written for a run of this class)")
			if exit == 0 {
				exit = 2
			}
			continue
		}
		final := filepath.Join(verifDir, "replays", fmt.Sprintf("%s-%d.json", prop, r.Seed))
		if r.Viol.Oracle == "process-death" {
			b, _ := os.ReadFile(r.Replay)
			os.WriteFile(final, b, 0o644)
			confirmed := false
			for a := 0; a < 3 && !confirmed; a++ {
				so, err := runWorker(bin, map[string]string{"VS_MODE": "replay", "VS_REPLAY": final}, 5*time.Minute)
				if err != nil && !strings.Contains(so, `"replayed":true`) {
					confirmed = true
				}
			}
			if confirmed {
				fmt.Printf("VIOLATION property=%s replay=%s\n", prop, final)
				exit = 1
			} else {
				fmt.Printf("UNREPRODUCED process death for seed %d\n", r.Seed)
				if exit == 0 {
					exit = 2
				}
			}
			continue
		}
		so, err := runWorker(bin, map[string]string{"VS_MODE": "shrink", "VS_REPLAY": r.Replay, "VS_SHRUNK": final, "VS_BUDGET": "800", "VS_SCRATCH": scratch}, 10*time.Minute)
		if err != nil || !strings.Contains(so, `"shrunk":true`) {
			// fall back to the unshrunk file
			b, _ := os.ReadFile(r.Replay)
			os.WriteFile(final, b, 0o644)
			fmt.Printf("  minimisation unavailable (%v); keeping the original run\n", err)
		} else {
			fmt.Printf("  minimised: %s\n", strings.TrimSpace(lastJSON(so)))
		}
		// confirm in fresh processes
		confirmed := false
		for a := 0; a < 5 && !confirmed; a++ {
			so, err := runWorker(bin, map[string]string{"VS_MODE": "replay", "VS_REPLAY": final}, 5*time.Minute)
			if strings.Contains(so, `"same":true`) || (err != nil && !strings.Contains(so, `"replayed":true`)) {
				confirmed = true
			}
		}
		if confirmed {
			fmt.Printf("VIOLATION property=%s replay=%s\n", prop, final)
			exit = 1
		} else {
			fmt.Printf("UNREPRODUCED anomaly for class %s (replay %s did not fail again in 5 fresh processes)\n", fp, final)
			if exit == 0 {
				exit = 2
			}
		}
	}
	for _, d := range deaths {
		fmt.Printf("WORKER-DEATH: %s\n", d)
		if exit == 0 {
			exit = 2
		}
	}

	// ---- evidence
	ev := buildEvidence(prop, tier, baseSeed, info, recs, knownHit, wall, violations, firstSeed)
	if exit == 0 {
		if ev.vacuous != "" {
			fmt.Printf("HARNESS-TROUBLE: the batch was vacuous: %s\n", ev.vacuous)
			exit = 2
		}
	}
	os.MkdirAll(filepath.Join(verifDir, "evidence"), 0o755)
	b, _ := json.MarshalIndent(ev.doc, "", " ")
	if err := os.WriteFile(filepath.Join(verifDir, "evidence", prop+".json"), b, 0o644); err != nil {
		fatal2("%v", err)
	}
	fmt.Printf("%s %s: %d runs (%d non-trivial distinct), %d violations, %.1fs, exit %d\n", prop, tier, len(recs), ev.distinct, violations, wall, exit)
	cleanup()
	os.Exit(exit)
}

// cleanupDirs: scratch directories to remove before the process leaves through
// os.Exit (deferred calls do not run then).
var cleanupDirs []string
var workerTmp string

func cleanup() {
	for _, d := range cleanupDirs {
		os.RemoveAll(d)
	}
}

func tail(s string, n int) string {
	lines := strings.Split(strings.TrimRight(s, "\n"), "\n")
	if len(lines) > n {
		lines = lines[len(lines)-n:]
	}
	return strings.Join(lines, "\n")
}

func lastJSON(s string) string {
	lines := strings.Split(strings.TrimSpace(s), "\n")
	for i := len(lines) - 1; i >= 0; i-- {
		if strings.HasPrefix(lines[i], "{") {
			return lines[i]
		}
	}
	return ""
}

func readRecords(path string) (recs []runRecord, lastBegin uint64, finished bool, resume uint64) {
	f, err := os.Open(path)
	if err != nil {
		return
	}
	defer f.Close()
	sc := bufio.NewScanner(f)
	sc.Buffer(make([]byte, 1<<20), 1<<26)
	for sc.Scan() {
		var r runRecord
		if json.Unmarshal(sc.Bytes(), &r) != nil {
			continue
		}
		if r.Begin != nil {
			lastBegin = *r.Begin
			continue
		}
		if r.Done {
			finished = true
			continue
		}
		if r.Resume > 0 {
			resume = r.Resume
			continue
		}
		recs = append(recs, r)
	}
	return
}

type evidenceOut struct {
	doc      map[string]any
	distinct int
	vacuous  string
}

func buildEvidence(prop, tier string, baseSeed uint64, info propInfo, recs []runRecord, knownHit map[string]int, wall float64, violations int, firstSeed uint64) evidenceOut {
	distinct := map[string]bool{}
	faults := map[string]int{}
	probes := map[string]int{}
	ends := map[string]int{}
	extra := map[string]int{}
	classes := map[string]int{}
	var steps, simNs int64
	var samples []any
	nontrivial := 0
	var lastSeed uint64
	for _, r := range recs {
		if r.Nontrivial {
			nontrivial++
			distinct[r.SchedFp] = true
		}
		for k, v := range r.Faults {
			faults[k] += v
		}
		for k, v := range r.Probes {
			probes[k] += v
		}
		for k, v := range r.Extra {
			extra[k] += v
		}
		ends[r.End]++
		if r.Class != "" {
			classes[r.Class]++
		}
		steps += r.Steps
		simNs += r.SimTimeNs
		if r.Sample != nil && len(samples) < 3 {
			samples = append(samples, r.Sample)
		}
		if r.Seed > lastSeed {
			lastSeed = r.Seed
		}
	}
	if len(samples) == 0 {
		samples = append(samples, "no sample recorded")
	}
	out := evidenceOut{distinct: len(distinct)}
	for _, p := range info.NeedProbes {
		if probes[p] == 0 && extra[p] == 0 && faults[p] == 0 {
			out.vacuous = fmt.Sprintf("reach probe %q never fired in %d runs", p, len(recs))
		}
	}
	if len(distinct) < 2 {
		out.vacuous = fmt.Sprintf("only %d distinct non-trivial runs", len(distinct))
	}
	cov := map[string]any{
		"evaluations":         len(recs),
		"distinct_nontrivial": len(distinct),
		"nontrivial_runs":     nontrivial,
		"rule":                info.Rule,
		"samples":             samples,
		"runs_per_hour":       int(float64(len(recs)) / wall * 3600),
		"seeds":               map[string]any{"verif_seed": baseSeed, "first": firstSeed, "last": lastSeed},
		"sim_time_covered_s":  float64(simNs) / 1e9,
		"scheduler_steps":     steps,
		"faults_fired":        faults,
		"probes":              probes,
		"oracle_counters":     extra,
		"end_reasons":         ends,
		"run_classes":         classes,
		"real_components":     info.Real,
		"stubbed_components":  info.Stub,
		"known_findings_hit":  knownHit,
		"explanation":         info.Explanation,
		"exhaustive":          false,
	}
	level := info.Level
	if level == "" {
		level = "exploration"
	}
	out.doc = map[string]any{
		"property_id": prop,
		"tier":        tier,
		"seed":        baseSeed,
		"level":       level,
		"coverage":    cov,
		"assumptions": info.Assumptions,
		"wall_s":      wall,
		"violations":  violations,
	}
	return out
}

func fileExists(p string) bool {
	_, err := os.Stat(p)
	return err == nil
}

// deathClass: first line of the runtime's report (panic / fatal error), shortened.
// emulatorDeath: the process died of a panic or fatal runtime error whose
// innermost frame outside the runtime and sync packages is emulator code.
// Anything else (the harness itself, the test framework) is harness trouble.
func emulatorDeath(out string) bool {
	lines := strings.Split(out, "\n")
	for i, ln := range lines {
		if !strings.HasPrefix(ln, "goroutine ") || !strings.Contains(ln, "[running") {
			continue
		}
		for _, f := range lines[i+1:] {
			if f == "" {
				break
			}
			if strings.HasPrefix(f, "\t") || strings.HasPrefix(f, " ") {
				continue // file:line of the frame above
			}
			if strings.HasPrefix(f, "runtime.") || strings.HasPrefix(f, "sync.") || strings.HasPrefix(f, "sync/") || strings.HasPrefix(f, "internal/") || strings.HasPrefix(f, "panic(") {
				continue
			}
			return strings.HasPrefix(f, "github.com/jimsnab/go-redisemu.")
		}
		return false
	}
	return false
}

// emulatorSpin: the stack of a goroutine that is running or runnable with its
// innermost non-runtime frame in emulator code ("" if there is none).
func emulatorSpin(stacks string) string {
	for _, g := range strings.Split(stacks, "\n\n") {
		lines := strings.Split(g, "\n")
		if len(lines) < 2 || !strings.HasPrefix(lines[0], "goroutine ") {
			continue
		}
		if !strings.Contains(lines[0], "[running") && !strings.Contains(lines[0], "[runnable") {
			continue
		}
		for _, f := range lines[1:] {
			if strings.HasPrefix(f, "\t") || strings.HasPrefix(f, " ") {
				continue
			}
			if strings.HasPrefix(f, "runtime.") || strings.HasPrefix(f, "internal/") || strings.HasPrefix(f, "time.") || strings.HasPrefix(f, "sync.") || strings.HasPrefix(f, "sync/") {
				continue // (a back-off sleep or a spin on an atomic inside a loop of the emulator)
			}
			if strings.HasPrefix(f, "github.com/jimsnab/go-redisemu.") && !strings.Contains(f, ".sim") {
				if len(lines) > 12 {
					lines = lines[:12]
				}
				return strings.Join(lines, "\n")
			}
			break
		}
	}
	return ""
}

func wedgeClass(where string) string {
	for _, f := range strings.Split(where, "\n")[1:] {
		if strings.HasPrefix(f, "github.com/jimsnab/go-redisemu.") {
			f = strings.TrimPrefix(f, "github.com/jimsnab/go-redisemu.")
			if i := strings.IndexByte(f, '('); i > 0 && !strings.HasPrefix(f, "(") {
				f = f[:i]
			} else if j := strings.LastIndexByte(f, '('); j > 0 {
				f = f[:j]
			}
			return f
		}
	}
	return "unknown"
}

func deathClass(out string) string {
	for _, ln := range strings.Split(out, "\n") {
		if strings.HasPrefix(ln, "panic:") || strings.HasPrefix(ln, "fatal error:") || strings.HasPrefix(ln, "runtime:") {
			ln = strings.TrimSpace(ln)
			if i := strings.IndexAny(ln, "0123456789["); i > 12 {
				ln = ln[:i]
			}
			if len(ln) > 70 {
				ln = ln[:70]
			}
			return strings.ReplaceAll(ln, " ", "_")
		}
	}
	return "unknown"
}
