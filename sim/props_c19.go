package sim

import (
	"fmt"
	"os"
	"path/filepath"
	"sort"
	"strconv"
	"strings"
	"sync"
	"time"

	redisemu "github.com/jimsnab/go-redisemu"
)

// C19: persistence. Class "restart": history, clean shutdown, restart on the
// same path, state must equal the model. Class "crash": the directory is
// captured at a chosen stage of a chosen snapshot write (plus torn variants of
// the file in flight); a second emulator started on each image must hold, per
// database, the previous or the new snapshot.

func genPersistPlan(seed uint64, thorough bool) *Plan {
	g := newGen(seed, 12)
	g.keys = []string{"k0", "k1", "k2", "k3", "k4"}[:3+g.r.IntN(3)]
	if g.chance(3) {
		// names a snapshot encoding may trip over: empty, binary, with line breaks
		g.keys = append(g.keys, g.pick("", "", "k\r\n5", "\x00", "k 6", "\xff\xfe"))
	}
	p := &Plan{Prop: "C19", Seed: seed, Class: "restart", Knobs: Knobs{Turns: true, Dump: true, Persist: true, RandSeed: int64(seed), MaxSteps: 200000, Sticky: 70, IdleCap: 100}}
	if g.chance(3) {
		p.Class = "crash"
		p.N1 = int64(g.r.IntN(4))  // which save (by order of "created" callbacks)
		p.N2 = int64(g.r.IntN(12)) // which stage within it
	}
	tk := map[mType][]string{}
	var items []Item
	add := func(a ...string) { items = append(items, cmdItem(a...)) }
	saveNow := func() {
		// let the periodic saver run and finish ...
		items = append(items, Item{Op: "adv", N: int64(1100 * time.Millisecond)})
		if p.Class != "crash" && g.chance(4) {
			// ... or not finish: the next commands arrive while the save is under
			// way, and what they change must be in this snapshot or mark the
			// database for the next one. (Not in the crash class: its oracle knows
			// the state when a save starts and when it ends, and a snapshot taken at
			// a point between two commands in between is legitimate but is neither.)
			return
		}
		items = append(items, Item{Op: "await-idle"})
	}
	phases := 1 + g.r.IntN(4)
	for ph := 0; ph < phases; ph++ {
		n := 2 + g.r.IntN(12)
		for i := 0; i < n; i++ {
			switch g.r.IntN(30) {
			case 0:
				add("SELECT", g.pick("0", "1", "2", "15"))
			case 1:
				add(g.pick("FLUSHDB", "FLUSHALL"))
			case 2, 3:
				add(g.shape()...)
			// in-place mutators the property names
			case 4:
				add("LSET", g.key(), g.pick("0", "-1", "1"), g.val())
			case 5:
				add("LINSERT", g.key(), g.pick("BEFORE", "AFTER"), g.elem(), g.val())
			case 6:
				add("LTRIM", g.key(), g.pick("0", "1"), g.pick("-1", "-2", "0"))
			case 7:
				add("SREM", g.key(), g.member(), g.member())
			case 8:
				add("SMOVE", g.key(), g.key(), g.member())
			case 9:
				add("HDEL", g.key(), g.field())
			case 10, 11:
				add(g.pick("EXPIRE", "PEXPIRE"), g.key(), g.pick("100", "3", "5000", "1000000"))
			case 12:
				add("PERSIST", g.key())
			case 13:
				add("GETEX", g.key(), g.pick("EX", "PERSIST", "PX"), "1000")
				if string(items[len(items)-1].Args[2]) == "PERSIST" {
					items[len(items)-1] = cmdItem("GETEX", g.key(), "PERSIST")
				}
			case 14:
				add("SETRANGE", g.key(), "2", "zz")
			case 15:
				add(g.pick("DEL", "UNLINK"), g.key())
			case 16:
				add("SET", g.key(), g.pick("", "x", g.val()))
			case 17:
				add("APPEND", g.key(), g.val())
			case 18:
				add("RENAME", g.key(), g.key())
			case 19:
				add("LREM", g.key(), "0", g.elem())
			case 20:
				add(g.pick("LPOP", "RPOP"), g.key())
			case 21:
				add("HINCRBY", g.key(), g.field(), "3")
			case 22:
				add("SINTERSTORE", g.key(), g.key(), g.key())
			case 23:
				add("COPY", g.key(), g.key(), "REPLACE")
			default:
				add(g.concCmd(tk)...)
			}
		}
		if ph < phases-1 || g.chance(2) {
			saveNow()
		}
	}
	past := func() []string {
		// deletions through a deadline that has already passed
		k := g.key()
		switch g.r.IntN(6) {
		case 0:
			return []string{"EXPIRE", k, g.pick("-1", "0", "-100")}
		case 1:
			return []string{"PEXPIRE", k, g.pick("-1", "0")}
		case 2:
			return []string{"EXPIREAT", k, "1"}
		case 3:
			return []string{"PEXPIREAT", k, "1"}
		case 4:
			return []string{"GETEX", k, g.pick("EXAT", "PXAT"), "1"}
		default:
			return []string{"SET", k, "gone", g.pick("EXAT", "PXAT"), "1"}
		}
	}
	if g.chance(3) {
		// the only write since the last completed save is a single in-place
		// change or a deletion of one kind: the shutdown save must still happen
		lw := g.r.IntN(12)
		if lw >= 8 {
			add("HSET", "lw", "f0", "old", "f1", "1")
			add("SET", "lws", "abc")
		}
		saveNow()
		switch lw {
		case 8:
			// (a write that replaces a value and adds nothing)
			add("HSET", "lw", "f0", g.val())
		case 9:
			add("HINCRBYFLOAT", "lw", "f1", "1.5")
		case 10:
			add(g.pick("SETRANGE", "SETBIT"), "lws", "1", g.pick("1", "0"))
		case 11:
			add("HINCRBY", "lw", "f1", "2")
		case 0, 1, 2:
			add(past()...)
		case 3:
			add("PERSIST", g.key())
		case 4:
			add(g.pick("EXPIRE", "PEXPIRE"), g.key(), "100000")
		case 5:
			add("LSET", g.key(), "0", g.val())
		case 6:
			add(g.pick("DEL", "UNLINK"), g.key())
		default:
			add("SREM", g.key(), g.member())
		}
	} else if g.chance(4) {
		add(past()...)
	}
	items = append(items, Item{Op: "barrier", N: 1})
	admin := []Item{{Op: "barrier", N: 1}}
	if p.Class == "restart" {
		if g.chance(2) {
			admin = append(admin, Item{Op: "emu-close", N: 0})
		} else {
			admin = append(admin, Item{Op: "emu-term", N: 0}, Item{Op: "emu-wait", N: 0})
		}
		admin = append(admin, Item{Op: "emu-new", N: 0, S: "persist"}, Item{Op: "emu-start", N: 0}, Item{Op: "barrier", N: 2})
		items = append(items, Item{Op: "barrier", N: 2}, Item{Op: "reconnect"})
		// after the restart the same connection carries on: reads and a few writes
		for i := 0; i < 3+g.r.IntN(6); i++ {
			if g.chance(2) {
				items = append(items, cmdItem("SELECT", g.pick("0", "1", "2", "15")))
			}
			items = append(items, Item{Args: bs(g.concCmd(tk)...)})
		}
		p.Clients = []Client{{Name: "writer", Items: items}, {Name: "admin", Items: admin}}
		obs := observation(g.keys, 3, 0, 1, 2, 15)
		p.Clients[0].Items = append(p.Clients[0].Items, Item{Op: "barrier", N: 3})
		p.Clients = append(p.Clients, obs)
	} else {
		p.Clients = []Client{{Name: "writer", Items: items}, {Name: "admin", Items: admin}}
	}
	return p
}

// ---------------------------------------------------------------- crash images

type dbSnap map[string]*mObj

type crashImage struct {
	dir  string
	note string
	prev map[int]dbSnap // model state of each database at its last completed save
	next map[int]dbSnap // ... and at the save in flight
	inDb int
}

type persistChecker struct {
	seq           *seqChecker
	plan          *Plan
	mu            sync.Mutex
	saves         int // "created" callbacks seen
	watch         *fsWatch
	fsEvents      []fsEvent
	stageNo       int
	saved         map[int]dbSnap // last completed save per database
	finished      map[int]dbSnap // completed, not yet superseded
	inflight      map[int]dbSnap
	images        []crashImage
	restarts      int
	imagesChecked int
	saverRan      int
}

func newPersistChecker(p *Plan) Checker {
	return &persistChecker{seq: newSeqChecker(p).(*seqChecker), plan: p, saved: map[int]dbSnap{}, finished: map[int]dbSnap{}, inflight: map[int]dbSnap{}}
}

func (c *persistChecker) Extra() map[string]int {
	m := c.seq.Extra()
	m["saves"] = c.saves
	m["crash-images-checked"] = c.imagesChecked
	m["restart-verified"] = c.restarts
	return m
}

func snapDb(m *Model, db int) dbSnap {
	out := dbSnap{}
	for k, o := range m.dbs[db] {
		out[k] = o.clone()
	}
	return out
}

func dbIndexOfPath(path string) int {
	i := strings.LastIndex(path, ".db")
	if i < 0 {
		return -1
	}
	n, err := strconv.Atoi(path[i+3:])
	if err != nil {
		return -1
	}
	return n
}

// install hooks the snapshot stage callback of the engine.
func (c *persistChecker) install(w *World) {
	c.watch = newFsWatch(w.dir)
	w.stagesMu.Lock()
	defer w.stagesMu.Unlock()
	w.stagesHook = func(stage, path string) {
		c.mu.Lock()
		defer c.mu.Unlock()
		db := dbIndexOfPath(strings.TrimSuffix(path, ".tmp"))
		if db < 0 {
			return
		}
		if stage == "created" {
			c.saves++
			c.stageNo = 0
			if fin, ok := c.finished[db]; ok {
				c.saved[db] = fin
				delete(c.finished, db)
			}
			c.inflight[db] = snapDb(c.seq.m, db)
		}
		c.stageNo++
		if c.plan.Class == "crash" && int64(c.saves-1) == c.plan.N1 && len(c.images) == 0 &&
			(int64(c.stageNo-1) == c.plan.N2 || stage == "before-close" || stage == "renamed") {
			c.capture(w, db, stage, path)
		}
		if stage == "renamed" || stage == "before-close" {
			// the file is complete (an in-place save) or in place under its final name
			c.finished[db] = c.inflight[db]
		}
	}
}

func (c *persistChecker) stageNoMax() int { return 12 }

// capture copies the persist directory as it is now, plus torn variants of the file in flight.
func (c *persistChecker) capture(w *World, db int, stage, path string) {
	base := filepath.Join(w.dir, "img")
	copyDir := func(dst string, mutate func(name string, data []byte) ([]byte, bool)) {
		os.MkdirAll(dst, 0o755)
		ents, _ := os.ReadDir(w.dir)
		for _, e := range ents {
			if e.IsDir() {
				continue
			}
			b, err := os.ReadFile(filepath.Join(w.dir, e.Name()))
			if err != nil {
				continue
			}
			keep := true
			if mutate != nil {
				b, keep = mutate(e.Name(), b)
			}
			if keep {
				os.WriteFile(filepath.Join(dst, e.Name()), b, 0o644)
			}
		}
	}
	// per database: the snapshot a restart may legitimately find
	prev := map[int]dbSnap{}
	next := map[int]dbSnap{}
	for k, v := range c.saved {
		prev[k], next[k] = v, v
	}
	for k, v := range c.finished {
		// completed saves of other databases are simply their state
		prev[k], next[k] = v, v
		if k == db {
			prev[k] = c.saved[k]
		}
	}
	if v, ok := c.inflight[db]; ok {
		next[db] = v
		if f, ok := c.finished[db]; ok {
			prev[db] = f
		} else {
			prev[db] = c.saved[db]
		}
	}
	add := func(dir, note string) {
		c.images = append(c.images, crashImage{dir: dir, note: note, prev: prev, next: next, inDb: db})
	}
	n := 0
	d := fmt.Sprintf("%s-%d", base, n)
	copyDir(d, nil)
	add(d, fmt.Sprintf("process dies at stage %q of the save of database %d", stage, db))
	// torn variants of the file being written: every prefix length is a possible on-disk state
	inflightName := filepath.Base(path)
	full, err := os.ReadFile(path)
	if err == nil {
		lens := []int{0, 1, len(full) / 2, len(full) - 1}
		if len(full) <= 64 {
			lens = lens[:0]
			for i := 0; i < len(full); i++ {
				lens = append(lens, i)
			}
		}
		sort.Ints(lens)
		last := -1
		for _, l := range lens {
			if l < 0 || l >= len(full) || l == last {
				continue
			}
			last = l
			n++
			d := fmt.Sprintf("%s-%d", base, n)
			copyDir(d, func(name string, data []byte) ([]byte, bool) {
				if name == inflightName {
					return data[:l], true
				}
				return data, true
			})
			add(d, fmt.Sprintf("process dies at stage %q of the save of database %d, only the first %d of %d bytes of %s reached the disk", stage, db, l, len(full), inflightName))
		}
		// the file in flight never made it to the directory
		n++
		d := fmt.Sprintf("%s-%d", base, n)
		copyDir(d, func(name string, data []byte) ([]byte, bool) {
			return data, name != inflightName || !strings.Contains(name, ".tmp")
		})
		if strings.Contains(inflightName, ".tmp") {
			add(d, fmt.Sprintf("process dies at stage %q, the temporary file %s is lost", stage, inflightName))
		}
	}
}

func (c *persistChecker) OnStep(w *World) *Violation {
	if w.stagesHook == nil {
		c.install(w)
	}
	return nil
}

func (c *persistChecker) OnReply(w *World, op *Op) *Violation {
	if w.stagesHook == nil {
		c.install(w)
	}
	v := c.seq.OnReply(w, op)
	return v
}

// saveCompleted is called by the engine hook wrapper when a save of db finished.
func (c *persistChecker) Final(w *World) *Violation {
	// the file protocol, whatever the class: an existing snapshot is only ever
	// replaced by a rename onto its name
	c.fsEvents = append(c.fsEvents, c.watch.drain()...)
	c.watch.close()
	if msg := snapshotProtocolViolation(c.fsEvents); msg != "" {
		return &Violation{Oracle: "crash-window", Step: w.step, Fp: "crash:snapshot-removed-during-save", Msg: msg}
	}
	if c.plan.Class != "crash" {
		return nil
	}
	// restart on every captured image (second emulator instance, same bubble)
	for i, img := range c.images {
		c.imagesChecked++
		eng, err := redisemu.NewEmulator(w.lane, 7100+i, "", filepath.Join(img.dir, "snap"), nil)
		if err != nil {
			return &Violation{Oracle: "crash-image", Step: w.step, Fp: "crash:cannot-start", Msg: fmt.Sprintf("%s: emulator cannot be created on the crash image: %v", img.note, err)}
		}
		started := false
		w.syncAdminPass(func() { eng.Start(); started = true })
		if !started {
			return &Violation{Oracle: "crash-image", Step: w.step, Fp: "crash:cannot-start", Msg: fmt.Sprintf("%s: the emulator did not start on the crash image", img.note)}
		}
		for db := 0; db < 3; db++ {
			dump := redisemu.SimDumpDb(eng, db)
			okPrev := snapEquals(img.prev[db], dump, w.WallNow().UnixNano())
			okNext := snapEquals(img.next[db], dump, w.WallNow().UnixNano())
			if okPrev != "" && okNext != "" {
				go eng.RequestTermination()
				return &Violation{Oracle: "crash-image", Step: w.step, Fp: "crash:neither-snapshot:" + classOf(okPrev, okNext, dump),
					Msg: fmt.Sprintf("%s.\nAfter restart database %d holds %d keys, which is neither the previous snapshot (%s) nor the new one (%s)", img.note, db, len(dump), okPrev, okNext)}
			}
		}
		if i > 0 {
			go eng.RequestTermination()
			continue
		}
		// The process that was restarted on the image lives on from it: one write
		// over a connection, a clean stop (which saves), another start - the write
		// must be there. (Whatever the crash left lying around - a temporary file,
		// a half-written one - must not get in the way of later saves.)
		addr := fmt.Sprintf(":%d", 7100+i)
		reply, stopped := "", false
		w.syncAdminPass(func() {
			conn := newConn(9000+i, addr, "10.0.9.1:50000", &w.step)
			if !w.net.dial(addr, conn) {
				reply = "(connection refused)"
				return
			}
			conn.cliDeliver(EncodeCmd(bs("SET", "written-after-the-crash", "1")), 0)
			var got []byte
			for tries := 0; tries < 2000 && reply == ""; tries++ {
				for _, ch := range conn.cliTake(nil) {
					got = append(got, ch.data...)
				}
				if v, n, err := ParseValue(got); err == nil && n > 0 {
					reply = v.String()
					break
				}
				time.Sleep(time.Millisecond)
			}
			conn.cliClose(false)
		})
		if reply != "+OK" {
			go eng.RequestTermination()
			return &Violation{Oracle: "crash-image", Step: w.step, Fp: "crash:restarted-instance-unusable",
				Msg: fmt.Sprintf("%s.\nThe emulator restarted on the crash image answered SET with %q", img.note, reply)}
		}
		w.syncAdminPass(func() { eng.RequestTermination(); eng.WaitForTermination(); stopped = true })
		if !stopped {
			return &Violation{Oracle: "crash-image", Step: w.step, Fp: "crash:restarted-instance-does-not-stop",
				Msg: fmt.Sprintf("%s.\nThe emulator restarted on the crash image did not terminate", img.note)}
		}
		eng2, err := redisemu.NewEmulator(w.lane, 7150+i, "", filepath.Join(img.dir, "snap"), nil)
		if err != nil {
			return &Violation{Oracle: "crash-image", Step: w.step, Fp: "crash:cannot-start", Msg: fmt.Sprintf("%s: second restart: %v", img.note, err)}
		}
		started = false
		w.syncAdminPass(func() { eng2.Start(); started = true })
		if !started {
			return &Violation{Oracle: "crash-image", Step: w.step, Fp: "crash:cannot-start", Msg: fmt.Sprintf("%s: the emulator did not start the second time", img.note)}
		}
		o, ok := redisemu.SimDumpDb(eng2, 0)["written-after-the-crash"]
		go eng2.RequestTermination()
		if !ok || string(o.Str) != "1" {
			return &Violation{Oracle: "crash-image", Step: w.step, Fp: "crash:write-after-restart-lost",
				Msg: fmt.Sprintf("%s.\nThe emulator was restarted on the crash image, a key was SET (+OK), the emulator was stopped normally and started again: the key is not there - saves after the crash do not reach the disk", img.note)}
		}
	}
	return nil
}

func classOf(a, b string, dump map[string]redisemu.SimObj) string {
	if len(dump) == 0 {
		return "empty"
	}
	return "partial-or-mixed"
}

// snapEquals compares a model snapshot with a loaded database; "" = equal.
func snapEquals(s dbSnap, dump map[string]redisemu.SimObj, now int64) string {
	live := 0
	nowT := time.Unix(0, now)
	for k, o := range dump {
		if !o.ExpiresAt.After(nowT) {
			continue
		}
		live++
		mo, ok := s[k]
		if !ok {
			return fmt.Sprintf("key %q is not in it", k)
		}
		oo := o
		if d := diffObj(mo, &oo); d != "" {
			return fmt.Sprintf("key %q: %s", k, d)
		}
	}
	want := 0
	for _, mo := range s {
		if mo.Exp == 0 || mo.Exp+mo.Slack >= now {
			want++
		}
	}
	if live < want {
		for k, mo := range s {
			if _, ok := dump[k]; !ok && (mo.Exp == 0 || mo.Exp > now) {
				return fmt.Sprintf("key %q of it is missing", k)
			}
		}
	}
	return ""
}
