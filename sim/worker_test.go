//go:debug randseednop=0
package sim

import (
	"fmt"
	"os"
	"os/signal"
	"syscall"
	"testing"
	"time"
)

func TestMain(m *testing.M) {
	// the runtime's signal goroutine must be born outside any bubble
	c := make(chan os.Signal, 1)
	signal.Notify(c, syscall.SIGUSR2)
	os.Exit(m.Run())
}

func TestSmoke(t *testing.T) {
	plan := &Plan{Prop: "smoke", Seed: 1, Knobs: Knobs{Frag: true, ShortReads: true, RandAdv: 10}}
	plan.Clients = []Client{
		{Items: []Item{cmdItem("SET", "k", "1"), cmdItem("INCR", "k"), cmdItem("GET", "k"), cmdItem("BLPOP", "q", "1"), cmdItem("PING")}},
		{Items: []Item{cmdItem("INCR", "k"), cmdItem("LPUSH", "l", "a", "b"), cmdItem("LRANGE", "l", "0", "-1"), cmdItem("CLIENT", "LIST")}, Depth: 2},
	}
	for seed := uint64(1); seed <= 3; seed++ {
		t0 := time.Now()
		res := RunPlan(t, plan, newTape(seed), func(*Plan) Checker { return nil }, seed == 1)
		fmt.Printf("seed %d: steps=%d end=%s viol=%v wall=%v leaked=%v fp=%x\n", seed, res.Stats.Steps, res.Stats.EndReason, res.Viol, time.Since(t0), res.Stats.Leaked, res.Stats.SchedFp)
		if seed == 1 {
			for _, l := range res.Log {
				fmt.Println(l)
			}
		}
		for _, op := range res.History {
			fmt.Printf("  c%d #%d %v -> %s [%d,%d]\n", op.Client, op.Idx, strs(op.Item.Args), op.Reply.String(), op.Invoke, op.Return)
		}
	}
}
