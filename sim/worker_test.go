//go:debug randseednop=0
package sim

import (
	"encoding/json"
	"fmt"
	"os"
	"os/exec"
	"os/signal"
	"runtime"
	"strconv"
	"strings"
	"syscall"
	"testing"
	"time"
)

func TestMain(m *testing.M) {
	// the runtime's signal goroutine must be born outside any bubble
	c := make(chan os.Signal, 1)
	signal.Notify(c, syscall.SIGUSR2)
	os.Exit(m.Run())
}

func TestSmoke(t *testing.T) {
	plan := &Plan{Prop: "smoke", Seed: 1, Knobs: Knobs{Frag: true, ShortReads: true, RandAdv: 10}}
	plan.Clients = []Client{
		{Items: []Item{cmdItem("SET", "k", "1"), cmdItem("INCR", "k"), cmdItem("GET", "k"), cmdItem("BLPOP", "q", "1"), cmdItem("PING")}},
		{Items: []Item{cmdItem("INCR", "k"), cmdItem("LPUSH", "l", "a", "b"), cmdItem("LRANGE", "l", "0", "-1"), cmdItem("CLIENT", "LIST")}, Depth: 2},
	}
	for seed := uint64(1); seed <= 3; seed++ {
		t0 := time.Now()
		res := RunPlan(t, plan, newTape(seed), func(*Plan) Checker { return nil }, seed == 1)
		fmt.Printf("seed %d: steps=%d end=%s viol=%v wall=%v leaked=%v fp=%x\n", seed, res.Stats.Steps, res.Stats.EndReason, res.Viol, time.Since(t0), res.Stats.Leaked, res.Stats.SchedFp)
		if seed == 1 {
			for _, l := range res.Log {
				fmt.Println(l)
			}
		}
		for _, op := range res.History {
			fmt.Printf("  c%d #%d %v -> %s [%d,%d]\n", op.Client, op.Idx, strs(op.Item.Args), op.Reply.String(), op.Invoke, op.Return)
		}
	}
}

func TestSeqProbe(t *testing.T) {
	prop := os.Getenv("PROP")
	if prop == "" {
		prop = "C02"
	}
	n := 200
	fps := map[string]int{}
	first := map[string]string{}
	t0 := time.Now()
	for seed := uint64(1); seed <= uint64(n); seed++ {
		plan := genSeqPlan(prop, seed, false)
		res := RunPlan(t, plan, newTape(seed), newSeqChecker, false)
		if res.Viol != nil {
			fps[res.Viol.Fp]++
			if _, ok := first[res.Viol.Fp]; !ok {
				first[res.Viol.Fp] = fmt.Sprintf("seed %d: %s", seed, res.Viol.Msg)
			}
		} else if res.Stats.EndReason != "done" {
			fps["END:"+res.Stats.EndReason]++
		}
	}
	fmt.Printf("%d runs in %v\n", n, time.Since(t0))
	for fp, c := range fps {
		fmt.Printf("%4d %s\n      %s\n", c, fp, first[fp])
	}
}

// TestAdhoc runs a ';'-separated command script (CMDS) on one connection and
// prints replies next to the model's expectation.
func TestAdhoc(t *testing.T) {
	script := os.Getenv("CMDS")
	if script == "" {
		t.Skip()
	}
	plan := &Plan{Prop: "adhoc", Knobs: Knobs{Turns: true, Sticky: 100}}
	var items []Item
	for _, c := range splitScript(script) {
		if len(c) == 2 && c[0] == "@adv" {
			d, _ := time.ParseDuration(c[1])
			items = append(items, Item{Op: "adv", N: int64(d)})
			continue
		}
		items = append(items, cmdItem(c...))
	}
	plan.Clients = []Client{{Items: items}}
	m := NewModel()
	s := NewSess()
	res := RunPlan(t, plan, replayTape(nil), func(*Plan) Checker { return nil }, false)
	for _, op := range res.History {
		exp := m.Apply(s, simEpochNs, strs(op.Item.Args))
		mark := "  "
		if err := exp.Match(op.Reply); err != nil {
			mark = "!!"
		} else if exp.Resolve != nil {
			exp.Resolve(op.Reply)
		}
		fmt.Printf("%s %-50s -> %-40s model: %s\n", mark, fmtArgs(strs(op.Item.Args)), clipS(op.Reply.String(), 80), clipS(exp.String(), 80))
	}
	if res.Viol != nil {
		fmt.Println("VIOLATION:", res.Viol)
	}
}

func splitScript(s string) [][]string {
	var out [][]string
	for _, line := range strings.Split(s, ";") {
		f := strings.Fields(line)
		if len(f) == 0 {
			continue
		}
		for i := range f {
			if f[i] == `""` {
				f[i] = ""
			}
			if u, err := strconv.Unquote(f[i]); err == nil && strings.HasPrefix(f[i], `"`) {
				f[i] = u
			}
		}
		out = append(out, f)
	}
	return out
}

func TestSeqOne(t *testing.T) {
	prop := os.Getenv("PROP")
	seed, _ := strconv.ParseUint(os.Getenv("SEED"), 10, 64)
	if seed == 0 {
		t.Skip()
	}
	plan := genSeqPlan(prop, seed, os.Getenv("THOROUGH") != "")
	res := RunPlan(t, plan, newTape(seed), newSeqChecker, false)
	n := len(res.History)
	from := 0
	if n > 25 {
		from = n - 25
	}
	for _, op := range res.History[from:] {
		fmt.Printf("  #%d %s -> %s\n", op.Idx, fmtArgs(strs(op.Item.Args)), clipS(op.Reply.String(), 150))
	}
	fmt.Println("END:", res.Stats.EndReason, "VIOL:", res.Viol)
}

// TestWorker is the entry point the driver (bin/check) uses. Configuration
// comes from VS_* environment variables; results go to VS_OUT as JSON lines.
func TestWorker(t *testing.T) {
	mode := os.Getenv("VS_MODE")
	if mode == "" {
		t.Skip()
	}
	pd := props[os.Getenv("VS_PROP")]
	out := os.Stdout
	if p := os.Getenv("VS_OUT"); p != "" {
		f, err := os.OpenFile(p, os.O_CREATE|os.O_WRONLY|os.O_APPEND, 0o644)
		if err != nil {
			t.Fatal(err)
		}
		defer f.Close()
		out = f
	}
	emit := func(v any) {
		b, _ := json.Marshal(v)
		out.Write(append(b, '\n'))
	}
	switch mode {
	case "info":
		if pd == nil {
			t.Fatalf("unknown property %q", os.Getenv("VS_PROP"))
		}
		emit(propInfoJSON(pd))
	case "sentinel":
		// a sentinel aims at an open known finding: nothing is avoided
		openAvoid = map[string]bool{}
		if name := os.Getenv("VS_SENTINEL_PLAN"); name != "" {
			mkp := sentinelPlans[name]
			if mkp == nil {
				t.Fatalf("unknown sentinel plan %q", name)
			}
			res := RunPlan(t, mkp(), replayTape(nil), pd.chk, false)
			emit(map[string]any{"sentinel": true, "viol": res.Viol})
			return
		}
		var script [][]string
		if err := json.Unmarshal([]byte(os.Getenv("VS_SCRIPT")), &script); err != nil {
			t.Fatal(err)
		}
		plan := &Plan{Prop: pd.id, Class: "sentinel", Knobs: Knobs{Turns: true, Dump: true, Sticky: 100}}
		var items []Item
		for _, c := range script {
			if len(c) == 2 && c[0] == "@adv" {
				d, _ := time.ParseDuration(c[1])
				items = append(items, Item{Op: "adv", N: int64(d)})
				continue
			}
			items = append(items, cmdItem(c...))
		}
		plan.Clients = []Client{{Items: items}}
		res := RunPlan(t, plan, replayTape(nil), newSeqChecker, false)
		emit(map[string]any{"sentinel": true, "viol": res.Viol})
	case "run":
		if pd == nil {
			t.Fatalf("unknown property %q", os.Getenv("VS_PROP"))
		}
		from, _ := strconv.ParseUint(os.Getenv("VS_FROM"), 10, 64)
		n, _ := strconv.Atoi(os.Getenv("VS_N"))
		thorough := os.Getenv("VS_TIER") == "thorough"
		rdir := os.Getenv("VS_REPLAY_DIR")
		deadline := time.Time{}
		if s, _ := strconv.Atoi(os.Getenv("VS_SECONDS")); s > 0 {
			deadline = time.Now().Add(time.Duration(s) * time.Second)
		}
		nviol := 0
		rlog := newRaceLogReader()
		var curPlan *Plan
		OnPoisoned = func(res *RunResult) {
			rec := RunRecord{Seed: res.Plan.Seed, Class: res.Plan.Class, End: res.Stats.EndReason, Steps: res.Stats.Steps, TaskSteps: res.Stats.TaskSteps,
				SimTimeNs: int64(res.Stats.SimTime), Cmds: res.Stats.Cmds, Replies: res.Stats.Replies,
				SchedFp: fmt.Sprintf("%016x", res.Stats.SchedFp), Faults: res.Stats.Faults, Probes: res.Stats.Probes, Extra: res.Extra, Viol: res.Viol}
			if rdir != "" && res.Viol != nil {
				path := fmt.Sprintf("%s/raw-%s-%d.json", rdir, pd.id, res.Plan.Seed)
				writeReplay(path, &ReplayFile{Property: pd.id, Seed: res.Plan.Seed, Plan: curPlan, Tape: res.Tape, Viol: res.Viol})
				rec.Replay = path
			}
			emit(rec)
			emit(map[string]any{"resume": res.Plan.Seed + 1})
			out.Sync()
			os.Exit(0)
		}
		for i := 0; i < n; i++ {
			if !deadline.IsZero() && time.Now().After(deadline) {
				break
			}
			seed := from + uint64(i)
			emit(map[string]any{"begin": seed})
			plan := pd.gen(seed, thorough)
			curPlan = plan
			prePath := ""
			if rdir != "" {
				// (every property: a run may kill the process - a fatal runtime error
				// inside the emulator cannot be recovered - and its plan must survive)
				prePath = fmt.Sprintf("%s/pre-%s-%d.json", rdir, pd.id, seed)
				writeReplay(prePath, &ReplayFile{Property: pd.id, Seed: seed, Plan: plan, Tape: nil, Viol: &Violation{Oracle: "process-death", Fp: "process-death", Msg: "the worker process died while executing this run"}, Note: "tape is regenerated from the seed"})
			}
			// wall-clock watchdog (real time: this goroutine is outside the bubble)
			wd := time.AfterFunc(60*time.Second, func() {
				buf := make([]byte, 1<<20)
				n := runtime.Stack(buf, true)
				emit(map[string]any{"hang": seed, "stacks": string(buf[:n])})
				os.Exit(3)
			})
			res := runProp(t, pd, plan, newTape(seed), false)
			wd.Stop()
			if prePath != "" {
				os.Remove(prePath)
			}
			rec := RunRecord{Seed: seed, Class: plan.Class, End: res.Stats.EndReason, Steps: res.Stats.Steps, TaskSteps: res.Stats.TaskSteps,
				SimTimeNs: int64(res.Stats.SimTime), Cmds: res.Stats.Cmds, Replies: res.Stats.Replies,
				SchedFp: fmt.Sprintf("%016x", res.Stats.SchedFp), Faults: res.Stats.Faults, Probes: res.Stats.Probes, Extra: res.Extra, HistFp: histFp(res)}
			if pd.race {
				if txt := rlog.next(); txt != "" {
					for _, rr := range parseRaceLog(txt) {
						if rr.ours && res.Viol == nil {
							res.Viol = &Violation{Oracle: "race", Fp: rr.fp, Msg: rr.text, Step: res.Stats.Steps}
						}
					}
				}
			}
			rec.Nontrivial = res.Viol == nil && pd.nontrivial != nil && pd.nontrivial(res)
			if res.Viol != nil {
				rec.Viol = res.Viol
				nviol++
				if rdir != "" && nviol <= 20 {
					path := fmt.Sprintf("%s/raw-%s-%d.json", rdir, pd.id, seed)
					writeReplay(path, &ReplayFile{Property: pd.id, Seed: seed, Plan: plan, Tape: res.Tape, Viol: res.Viol})
					rec.Replay = path
				}
			}
			if i < 2 || (rec.Nontrivial && i%97 == 0) {
				rec.Sample = sampleOf(res, 12)
			}
			emit(rec)
		}
		emit(map[string]any{"done": true})
	case "log":
		// one run from its seed with the full event log (determinism debugging)
		seed, _ := strconv.ParseUint(os.Getenv("VS_FROM"), 10, 64)
		plan := pd.gen(seed, os.Getenv("VS_TIER") == "thorough")
		res := runProp(t, pd, plan, newTape(seed), true)
		for _, l := range res.Log {
			fmt.Fprintln(out, l)
		}
		for _, op := range res.History {
			fmt.Fprintf(out, "H c%d #%d %d..%d %s\n", op.Client, op.Idx, op.Invoke, op.Return, op.Reply.Canon())
		}
		fmt.Fprintf(out, "END %s fp=%016x hist=%s viol=%v\n", res.Stats.EndReason, res.Stats.SchedFp, histFp(res), res.Viol)
	case "replay":
		rf, err := readReplay(os.Getenv("VS_REPLAY"))
		if err != nil {
			t.Fatal(err)
		}
		pd = props[rf.Property]
		report := func(res *RunResult) {
			same := res.Viol != nil && rf.Viol != nil && res.Viol.Fp == rf.Viol.Fp
			emit(map[string]any{"replayed": true, "same": same, "viol": res.Viol, "end": res.Stats.EndReason, "tape": res.Tape, "turnLog": res.TurnLog})
		}
		OnPoisoned = func(res *RunResult) {
			report(res)
			if os.Getenv("VS_VERBOSE") != "" {
				for _, l := range res.Log {
					fmt.Println(l)
				}
				fmt.Println("violation:", res.Viol)
			}
			os.Exit(0)
		}
		tp := replayTape(rf.Tape)
		if rf.Tape == nil && rf.Viol != nil && rf.Viol.Oracle == "process-death" {
			tp = newTape(rf.Seed)
		}
		rlog := newRaceLogReader()
		res := runProp(t, pd, rf.Plan, tp, true)
		if pd.race {
			for _, rr := range parseRaceLog(rlog.next()) {
				if rr.ours && (res.Viol == nil || rr.fp == rf.Viol.Fp) {
					res.Viol = &Violation{Oracle: "race", Fp: rr.fp, Msg: rr.text, Step: res.Stats.Steps}
				}
			}
		}
		report(res)
		if os.Getenv("VS_VERBOSE") != "" {
			for _, l := range res.Log {
				fmt.Println(l)
			}
			for _, op := range res.History {
				fmt.Printf("  c%d #%d [%d,%d] %s -> %s\n", op.Client, op.Idx, op.Invoke, op.Return, fmtArgs(strs(op.Item.Args)), clipS(op.Reply.String(), 200))
			}
			fmt.Println("violation:", res.Viol)
		}
	case "shrink":
		rf, err := readReplay(os.Getenv("VS_REPLAY"))
		if err != nil {
			t.Fatal(err)
		}
		pd = props[rf.Property]
		budget, _ := strconv.Atoi(os.Getenv("VS_BUDGET"))
		if budget == 0 {
			budget = 600
		}
		run := inProcessRunner(t, pd)
		wedging := rf.Viol.Oracle == "livelock" || rf.Viol.Oracle == "deadlock" || pd.race
		if wedging {
			// a failing candidate wedges its process: one child process per candidate
			if budget > 120 {
				budget = 120
			}
			run = childRunner(os.Getenv("VS_SCRATCH"))
		}
		// first confirm it fails at all
		if v, _, _ := run(rf.Plan, rf.Tape); v == nil || v.Fp != rf.Viol.Fp {
			emit(map[string]any{"shrunk": false, "reason": "does not reproduce"})
			return
		}
		best, runs := shrinkReplay(t, pd, rf, budget, run)
		if !wedging {
			// final run with the event log kept, for the human-readable trace
			fin := runProp(t, pd, best.Plan, replayTape(best.Tape), true)
			if fin.Viol != nil {
				best.Viol = fin.Viol
				best.Tape = fin.Tape
				best.Events = fin.Log
			}
		}
		path := os.Getenv("VS_SHRUNK")
		if err := writeReplay(path, best); err != nil {
			t.Fatal(err)
		}
		emit(map[string]any{"shrunk": true, "runs": runs, "path": path, "items": countItems(best.Plan), "tape": len(best.Tape)})
	}
}

func countItems(p *Plan) int {
	n := 0
	for _, c := range p.Clients {
		n += len(c.Items)
	}
	return n
}

// childRunner runs each candidate in a fresh worker process (replay mode).
func childRunner(scratch string) runFn {
	if scratch == "" {
		scratch = os.TempDir()
	}
	n := 0
	return func(p *Plan, tape []uint32) (*Violation, []uint32, []int) {
		n++
		path := fmt.Sprintf("%s/cand-%d-%d.json", scratch, os.Getpid(), n)
		defer os.Remove(path)
		// the recorded violation is irrelevant for the child: it reports what it sees
		writeReplay(path, &ReplayFile{Property: p.Prop, Seed: p.Seed, Plan: p, Tape: tape, Viol: &Violation{}})
		cmd := exec.Command(os.Args[0], "-test.run", "^TestWorker$", "-test.timeout", "0")
		cmd.Env = append(os.Environ(), "VS_MODE=replay", "VS_REPLAY="+path, "VS_OUT=", "VS_VERBOSE=")
		done := make(chan struct{})
		var outb []byte
		go func() { outb, _ = cmd.CombinedOutput(); close(done) }()
		select {
		case <-done:
		case <-time.After(90 * time.Second):
			if cmd.Process != nil {
				cmd.Process.Kill()
			}
			<-done
			return nil, nil, nil
		}
		for _, ln := range strings.Split(string(outb), "\n") {
			var m struct {
				Replayed bool       `json:"replayed"`
				Viol     *Violation `json:"viol"`
				Tape     []uint32   `json:"tape"`
				TurnLog  []int      `json:"turnLog"`
			}
			if strings.HasPrefix(ln, "{") && json.Unmarshal([]byte(ln), &m) == nil && m.Replayed {
				return m.Viol, m.Tape, m.TurnLog
			}
		}
		return nil, nil, nil
	}
}
