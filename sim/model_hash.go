package sim

import (
	"math"
	"strconv"
)

func init() {
	hset := func(okReply bool) func(m *Model, s *Sess, a []string, _ bool) Expect {
		return func(m *Model, s *Sess, a []string, _ bool) Expect {
			if len(a)%2 != 0 {
				return eArgErr()
			}
			o := m.get(s, a[1])
			if o != nil && o.T != tHash {
				return eWrongType()
			}
			if o == nil {
				o = &mObj{T: tHash, H: map[string]string{}}
				m.set(s, a[1], o)
			}
			added := int64(0)
			for i := 2; i+1 < len(a); i += 2 {
				if _, ok := o.H[a[i]]; !ok {
					added++
				}
				o.H[a[i]] = a[i+1]
				delete(o.HF, a[i])
			}
			m.modified(s, a[1])
			if okReply {
				return eOK()
			}
			return eInt(added)
		}
	}
	reg("hset", -4, true, hset(false))
	reg("hmset", -4, true, hset(true))
	reg("hsetnx", 4, true, func(m *Model, s *Sess, a []string, _ bool) Expect {
		o := m.get(s, a[1])
		if o != nil && o.T != tHash {
			return eWrongType()
		}
		if o != nil {
			if _, ok := o.H[a[2]]; ok {
				return eInt(0)
			}
		}
		if o == nil {
			o = &mObj{T: tHash, H: map[string]string{}}
			m.set(s, a[1], o)
		}
		o.H[a[2]] = a[3]
		m.modified(s, a[1])
		return eInt(1)
	})
	reg("hget", 3, false, func(m *Model, s *Sess, a []string, _ bool) Expect {
		o, e := m.hash(s, a[1])
		if e != nil {
			return *e
		}
		if o == nil {
			return eNil()
		}
		v, ok := o.H[a[2]]
		if !ok {
			return eNil()
		}
		return hfReply(o, a[2], v)
	})
	reg("hmget", -3, false, func(m *Model, s *Sess, a []string, _ bool) Expect {
		o, e := m.hash(s, a[1])
		if e != nil {
			return *e
		}
		sub := make([]Expect, 0, len(a)-2)
		for _, f := range a[2:] {
			if o == nil {
				sub = append(sub, eNil())
				continue
			}
			v, ok := o.H[f]
			if !ok {
				sub = append(sub, eNil())
			} else {
				sub = append(sub, hfReply(o, f, v))
			}
		}
		return eArr(sub...)
	})
	reg("hgetall", 2, false, func(m *Model, s *Sess, a []string, _ bool) Expect {
		o, e := m.hash(s, a[1])
		if e != nil {
			return *e
		}
		if o == nil {
			return eBulkArr(nil)
		}
		return hashPairs(o)
	})
	reg("hkeys", 2, false, func(m *Model, s *Sess, a []string, _ bool) Expect {
		o, e := m.hash(s, a[1])
		if e != nil {
			return *e
		}
		if o == nil {
			return eBulkArr(nil)
		}
		return eUnordered(sortedKeys(o.H))
	})
	reg("hvals", 2, false, func(m *Model, s *Sess, a []string, _ bool) Expect {
		o, e := m.hash(s, a[1])
		if e != nil {
			return *e
		}
		if o == nil {
			return eBulkArr(nil)
		}
		if len(o.HF) > 0 {
			n := len(o.H)
			return ePred("hash values", func(got Value) error {
				if got.K != KArray || len(got.A) != n {
					return errf("expected %d values", n)
				}
				return nil
			})
		}
		vals := make([]string, 0, len(o.H))
		for _, k := range sortedKeys(o.H) {
			vals = append(vals, o.H[k])
		}
		return eUnordered(vals)
	})
	reg("hlen", 2, false, func(m *Model, s *Sess, a []string, _ bool) Expect {
		o, e := m.hash(s, a[1])
		if e != nil {
			return *e
		}
		if o == nil {
			return eInt(0)
		}
		return eInt(int64(len(o.H)))
	})
	reg("hexists", 3, false, func(m *Model, s *Sess, a []string, _ bool) Expect {
		o, e := m.hash(s, a[1])
		if e != nil {
			return *e
		}
		if o == nil {
			return eInt(0)
		}
		if _, ok := o.H[a[2]]; ok {
			return eInt(1)
		}
		return eInt(0)
	})
	reg("hstrlen", 3, false, func(m *Model, s *Sess, a []string, _ bool) Expect {
		o, e := m.hash(s, a[1])
		if e != nil {
			return *e
		}
		if o == nil {
			return eInt(0)
		}
		if o.HF[a[2]] {
			return Expect{Mode: exAny}
		}
		return eInt(int64(len(o.H[a[2]])))
	})
	reg("hdel", -3, true, func(m *Model, s *Sess, a []string, _ bool) Expect {
		o, e := m.hash(s, a[1])
		if e != nil {
			return *e
		}
		if o == nil {
			return eInt(0)
		}
		n := int64(0)
		for _, f := range a[2:] {
			if _, ok := o.H[f]; ok {
				delete(o.H, f)
				delete(o.HF, f)
				n++
			}
		}
		if n > 0 {
			m.modified(s, a[1])
			if len(o.H) == 0 {
				m.del(s, a[1])
			}
		}
		return eInt(n)
	})
	reg("hincrby", 4, true, func(m *Model, s *Sess, a []string, _ bool) Expect {
		d, okd := parseInt(a[3])
		o, e := m.hash(s, a[1])
		if e != nil {
			if !okd {
				return eArgErr()
			}
			return *e
		}
		if !okd {
			return eArgErr()
		}
		cur := int64(0)
		if o != nil {
			if v, ok := o.H[a[2]]; ok {
				c, ok := parseInt(v)
				if !ok || o.HF[a[2]] {
					if f, err := strconv.ParseFloat(v, 64); o.HF[a[2]] && err == nil && f == math.Trunc(f) && math.Abs(f) < 1e15 {
						c = int64(f)
					} else if o.HF[a[2]] && ok && !((d > 0 && c > maxInt64-d) || (d < 0 && c < minInt64-d)) {
						// a float-written field beyond 2^53: whether its decimal
						// form is an integer depends on the float formatting (Redis
						// prints long doubles with 17 digits, the emulator float64
						// shortest form). Both outcomes are accepted; the observed
						// one decides what the field holds afterwards.
						field := a[2]
						sum := c + d
						e := eAlt(eArgErr(), eInt(sum))
						e.Resolve = func(got Value) {
							if got.K == KInt {
								o.H[field] = strconv.FormatInt(sum, 10)
								delete(o.HF, field)
								m.modified(s, a[1])
							}
						}
						return e
					} else {
						return eArgErr()
					}
				}
				cur = c
			}
		}
		if (d > 0 && cur > maxInt64-d) || (d < 0 && cur < minInt64-d) {
			return eArgErr()
		}
		if o == nil {
			o = &mObj{T: tHash, H: map[string]string{}}
			m.set(s, a[1], o)
		}
		o.H[a[2]] = strconv.FormatInt(cur+d, 10)
		delete(o.HF, a[2])
		m.modified(s, a[1])
		return eInt(cur + d)
	})
	reg("hincrbyfloat", 4, true, func(m *Model, s *Sess, a []string, _ bool) Expect {
		d, okd := parseFloat(a[3])
		if okd && (math.IsNaN(d) || math.IsInf(d, 0)) {
			return eArgErr()
		}
		o, e := m.hash(s, a[1])
		if e != nil {
			if !okd {
				return eArgErr()
			}
			return *e
		}
		if !okd {
			return eArgErr()
		}
		cur := 0.0
		if o != nil {
			if v, ok := o.H[a[2]]; ok {
				f, ok := parseFloat(v)
				if !ok {
					return eArgErr()
				}
				cur = f
			}
		}
		r := cur + d
		if math.IsNaN(r) || math.IsInf(r, 0) {
			return eArgErr()
		}
		if o == nil {
			o = &mObj{T: tHash, H: map[string]string{}}
			m.set(s, a[1], o)
		}
		o.H[a[2]] = strconv.FormatFloat(r, 'f', -1, 64)
		if o.HF == nil {
			o.HF = map[string]bool{}
		}
		o.HF[a[2]] = true
		m.modified(s, a[1])
		return eFloat(r)
	})
	reg("hrandfield", -2, false, func(m *Model, s *Sess, a []string, _ bool) Expect {
		if len(a) > 4 {
			return eArgErr()
		}
		withValues := false
		var cnt int64
		hasCount := len(a) >= 3
		if hasCount {
			c, ok := parseInt(a[2])
			if !ok {
				return eArgErr()
			}
			cnt = c
			if len(a) == 4 {
				if upper(a[3]) != "WITHVALUES" {
					return eArgErr()
				}
				withValues = true
			}
			if cnt == math.MinInt64 || (withValues && (cnt < math.MinInt64/2 || cnt > math.MaxInt64/2)) {
				return eArgErr()
			}
		}
		o, e := m.hash(s, a[1])
		if e != nil {
			return *e
		}
		if !hasCount {
			if o == nil {
				return eNil()
			}
			h := o.H
			return ePred("a field of the hash", func(got Value) error {
				if got.K != KBulk {
					return errf("not a bulk string")
				}
				if _, ok := h[got.S]; !ok {
					return errf("field does not exist")
				}
				return nil
			})
		}
		if o == nil {
			return eBulkArr(nil)
		}
		h := map[string]string{}
		hf := map[string]bool{}
		for k, v := range o.H {
			h[k] = v
			hf[k] = o.HF[k]
		}
		return ePred("random fields of the hash", func(got Value) error {
			if got.K != KArray {
				return errf("not an array")
			}
			var fields, vals []Value
			if withValues {
				if len(got.A) > 0 && got.A[0].K == KArray {
					// RESP3 shape: array of pairs
					for _, p := range got.A {
						if p.K != KArray || len(p.A) != 2 {
							return errf("pair shape")
						}
						fields, vals = append(fields, p.A[0]), append(vals, p.A[1])
					}
				} else {
					if len(got.A)%2 != 0 {
						return errf("odd number of elements with WITHVALUES")
					}
					for i := 0; i+1 < len(got.A); i += 2 {
						fields, vals = append(fields, got.A[i]), append(vals, got.A[i+1])
					}
				}
			} else {
				fields = got.A
			}
			want := cnt
			if cnt >= 0 {
				if want > int64(len(h)) {
					want = int64(len(h))
				}
			} else {
				want = -cnt
			}
			if int64(len(fields)) != want {
				return errf("expected %d fields, got %d", want, len(fields))
			}
			seen := map[string]bool{}
			for i, f := range fields {
				if f.K != KBulk {
					return errf("field is not a bulk string")
				}
				v, ok := h[f.S]
				if !ok {
					return errf("field %q does not exist", f.S)
				}
				if cnt >= 0 && seen[f.S] {
					return errf("field %q returned twice for a positive count", f.S)
				}
				seen[f.S] = true
				if withValues && !hf[f.S] && (vals[i].K != KBulk || vals[i].S != v) {
					return errf("value of field %q is %s, expected %q", f.S, vals[i].String(), v)
				}
			}
			return nil
		})
	})
}

func (m *Model) hash(s *Sess, key string) (*mObj, *Expect) {
	o := m.get(s, key)
	if o != nil && o.T != tHash {
		e := eWrongType()
		return nil, &e
	}
	return o, nil
}

func hfReply(o *mObj, f, v string) Expect {
	if o.HF[f] {
		x, _ := strconv.ParseFloat(v, 64)
		return eFloat(x)
	}
	return eBulk(v)
}

func hashPairs(o *mObj) Expect {
	if len(o.HF) > 0 {
		h := map[string]string{}
		hf := map[string]bool{}
		for k, v := range o.H {
			h[k] = v
			hf[k] = o.HF[k]
		}
		return ePred("field/value pairs of the hash", func(got Value) error {
			if (got.K != KArray && got.K != KMap) || len(got.A) != 2*len(h) {
				return errf("expected %d pairs", len(h))
			}
			seen := map[string]bool{}
			for i := 0; i+1 < len(got.A); i += 2 {
				f := got.A[i].S
				v, ok := h[f]
				if !ok || seen[f] {
					return errf("unexpected or repeated field %q", f)
				}
				seen[f] = true
				if hf[f] {
					x, _ := strconv.ParseFloat(v, 64)
					if err := eFloat(x).Match(got.A[i+1]); err != nil {
						return err
					}
				} else if got.A[i+1].S != v {
					return errf("field %q has value %q, expected %q", f, got.A[i+1].S, v)
				}
			}
			return nil
		})
	}
	v := Value{K: KArray}
	for _, k := range sortedKeys(o.H) {
		v.A = append(v.A, Value{K: KBulk, S: k}, Value{K: KBulk, S: o.H[k]})
	}
	return Expect{Mode: exPairs, V: v}
}
