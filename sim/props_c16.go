package sim

import (
	"os"
	"regexp"
	"sort"
	"strconv"
	"strings"
)

// C16: data-race freedom. The same seeded scheduler drives a -race build; the
// oracle is the race detector (happens-before built from the emulator's own
// synchronisation only, DESIGN.md 2.7).

func genRacePlan(seed uint64, thorough bool) *Plan {
	g := newGen(seed, 10)
	g.keys = []string{"k0", "k1", "k2", "l0"}
	p := &Plan{Prop: "C16", Seed: seed, Knobs: Knobs{RandSeed: int64(seed), MaxSteps: 60000, IdleCap: 1500, Persist: g.chance(2)}}
	p.Knobs.Sticky = []int{0, 30, 60}[g.r.IntN(3)]
	p.Knobs.Stall = []int{0, 20, 20, 40}[g.r.IntN(4)]
	p.Knobs.PCT = []int{0, 0, 0, 2, 3}[g.r.IntN(5)]
	p.Knobs.UnlockYield = g.chance(2)
	p.Knobs.Frag = g.chance(3)
	p.Knobs.RandAdv = []int{0, 10, 25}[g.r.IntN(3)]
	tk := map[mType][]string{tString: {"k0"}, tHash: {"k1"}, tSet: {"k2"}, tList: {"l0"}}
	nc := 2 + g.r.IntN(4)
	for c := 0; c < nc; c++ {
		g.client = c
		var items []Item
		add := func(a ...string) { items = append(items, cmdItem(a...)) }
		if c == 0 {
			add("SET", "b0", "0123456789abcdef") // the value the bitmap commands work on
		}
		n := 3 + g.r.IntN(12)
		for i := 0; i < n; i++ {
			switch g.r.IntN(30) {
			case 0, 1:
				add("CLIENT", g.pick("LIST", "INFO", "ID", "GETNAME"))
			case 2:
				add("CLIENT", "SETNAME", "n"+strconv.Itoa(i))
			case 3:
				add("INFO")
			case 4:
				add("DBSIZE")
			case 5:
				add("COMMAND", g.pick("COUNT", "LIST"))
			case 6:
				add("SELECT", g.pick("0", "1", "0", "2"))
			case 7:
				add("MULTI")
				add(g.concCmd(tk)...)
				if g.chance(3) {
					add("SELECT", g.pick("0", "1", "2"))
				}
				add(g.concCmd(tk)...)
				add("EXEC")
			case 8:
				add("WATCH", g.key())
				if g.chance(2) {
					// a watch that is examined from another database: WATCH here,
					// SELECT elsewhere, then EXEC / CLIENT INFO / CLIENT LIST there,
					// while other connections write the watched key
					other := g.pick("1", "2")
					add("SELECT", other)
					if g.chance(2) {
						add(g.concCmd(tk)...)
					}
					switch g.r.IntN(3) {
					case 0:
						add("CLIENT", g.pick("INFO", "LIST"))
					default:
						add("MULTI")
						add(g.concCmd(tk)...)
						add("EXEC")
					}
					if g.chance(2) {
						add("SELECT", "0")
					}
				}
			case 9:
				add(g.pick("BLPOP", "BRPOP"), "l0", g.pick("0.01", "0.2", "1"))
			case 10:
				add("BLMOVE", "l0", "l1", "LEFT", "RIGHT", "0.05")
			case 11:
				add("RPUSH", "l0", g.val())
			case 12:
				add("HELLO", g.pick("2", "3"))
			case 13:
				items = append(items, Item{Op: "reconnect"})
			case 14:
				if g.chance(6) {
					// kills everybody else, including connections that are just being set up
					add("CLIENT", "KILL", "TYPE", "normal")
				} else if g.chance(3) {
					// kills another connection (or itself): its goroutines end while
					// the others carry on
					add("CLIENT", "KILL", "ID", "$id:"+strconv.Itoa(g.r.IntN(nc)))
				} else {
					add("CLIENT", "UNBLOCK", "$id:"+strconv.Itoa(g.r.IntN(nc)))
				}
			case 15:
				add(g.pick("FLUSHDB", "FLUSHALL", "DBSIZE"))
			case 16:
				add(g.pick("EXPIRE", "PEXPIRE"), g.key(), "100")
			case 17:
				add(g.pick("PERSIST", "TTL", "EXPIRETIME", "TYPE", "TOUCH"), g.key())
			case 18:
				add("SET", g.key(), g.val(), "GET")
			case 19, 22, 23, 24:
				// bitmap commands on the shared string: in-place writers against
				// readers that scan the value
				switch g.r.IntN(9) {
				case 0:
					add("SETRANGE", "b0", g.pick("0", "1", "3"), g.pick("x", "yz"))
				case 1:
					add("BITCOUNT", "b0")
				case 2:
					add("BITPOS", "b0", g.pick("0", "1"))
				case 3:
					add("GETBIT", "b0", g.pick("0", "7", "13"))
				case 4:
					add("SETBIT", "b0", g.pick("0", "7", "13"), g.pick("0", "1"))
				case 5:
					add("BITFIELD", "b0", "SET", "u8", "0", g.pick("65", "66"), "INCRBY", "u4", "8", "1")
				case 6:
					add("DUMP", "b0")
				case 7:
					add("BITOP", g.pick("AND", "OR", "XOR"), "b0", "b0", "k0")
				default:
					add("SORT", "l0", "ALPHA")
				}
			case 20, 25:
				// iterations walk a table that writers grow and shrink
				switch g.r.IntN(3) {
				case 0:
					add("SCAN", "0")
				case 1:
					add("HSCAN", "k1", "0", "COUNT", g.pick("1", "1000", "1000"))
				default:
					add("SSCAN", "k2", "0", "COUNT", g.pick("1", "1000", "1000"))
				}
			case 21:
				items = append(items, Item{Op: "adv", N: int64(1100e6), Now: true})
			default:
				add(g.concCmd(tk)...)
			}
		}
		if g.chance(4) {
			items = append(items, Item{Op: "close", Now: true})
		}
		p.Clients = append(p.Clients, Client{Items: items, Depth: 1 + g.r.IntN(2)})
	}
	if g.chance(3) {
		// the owner of the emulator installs a dispatch hook while clients are active
		p.Clients = append(p.Clients, Client{Name: "hooker", Items: []Item{{Op: "emu-sethook", N: 0}, {Op: "adv", N: int64(1e6)}, {Op: "emu-sethook", N: 0}}})
	}
	// lifecycle at the end: terminate while clients may still be active
	if g.chance(2) {
		p.Clients = append(p.Clients, Client{Name: "admin", Items: []Item{{Op: "adv", N: int64(1200e6)}, {Op: "emu-term", N: 0}, {Op: "emu-wait", N: 0}}})
	}
	return p
}

type raceChecker struct{ plan *Plan }

func newRaceChecker(p *Plan) Checker                       { return &raceChecker{plan: p} }
func (c *raceChecker) OnReply(w *World, op *Op) *Violation { return nil }
func (c *raceChecker) OnStep(w *World) *Violation          { return nil }
func (c *raceChecker) Final(w *World) *Violation           { return nil }

// ---- race log handling

var reAccess = regexp.MustCompile(`^(Read|Write|Previous read|Previous write|Atomic read|Atomic write|Previous atomic read|Previous atomic write) at 0x[0-9a-f]+ by (goroutine \d+|main goroutine)`)

type raceReport struct {
	text string
	fp   string
	ours bool // both stacks are emulator code reached without verif-only inspection helpers
}

// parseRaceLog splits a race detector log into reports.
func parseRaceLog(log string) []raceReport {
	var out []raceReport
	blocks := strings.Split(log, "==================")
	for _, b := range blocks {
		if !strings.Contains(b, "WARNING: DATA RACE") {
			continue
		}
		lines := strings.Split(b, "\n")
		var stacks [][]string
		cur := -1
		inAccess := false
		for _, ln := range lines {
			t := strings.TrimSpace(ln)
			if reAccess.MatchString(t) {
				stacks = append(stacks, nil)
				cur = len(stacks) - 1
				inAccess = true
				continue
			}
			if strings.HasPrefix(t, "Goroutine ") && strings.Contains(t, "created at") {
				inAccess = false
				continue
			}
			if t == "" {
				if inAccess && cur >= 0 && len(stacks[cur]) > 0 {
					inAccess = false
				}
				continue
			}
			if inAccess && cur >= 0 && !strings.HasPrefix(t, "/") && strings.Contains(t, "(") {
				stacks[cur] = append(stacks[cur], t)
			}
		}
		if len(stacks) < 2 {
			continue
		}
		top := func(st []string) (string, bool, bool) {
			first := ""
			emu, tainted := false, false
			for _, f := range st {
				if strings.Contains(f, "go-redisemu.Sim") || strings.Contains(f, "go-redisemu.check") {
					tainted = true
				}
				if strings.Contains(f, "github.com/jimsnab/go-redisemu.") {
					emu = true
					if first == "" {
						first = strings.TrimPrefix(f, "github.com/jimsnab/go-redisemu.")
						if i := strings.LastIndexByte(first, '('); i > 0 {
							first = first[:i]
						}
					}
				}
			}
			return first, emu, tainted
		}
		a, ea, ta := top(stacks[0])
		c, ec, tc := top(stacks[1])
		pair := []string{a, c}
		sort.Strings(pair)
		out = append(out, raceReport{text: strings.TrimSpace(b), fp: "race:" + pair[0] + "|" + pair[1], ours: ea && ec && !ta && !tc})
	}
	return out
}

// raceLogReader returns new content of this process' race log since the last call.
type raceLogReader struct {
	path string
	off  int64
}

func newRaceLogReader() *raceLogReader {
	// GORACE="... log_path=<p> ..." makes the runtime write to <p>.<pid>
	for _, f := range strings.Fields(os.Getenv("GORACE")) {
		if strings.HasPrefix(f, "log_path=") {
			return &raceLogReader{path: strings.TrimPrefix(f, "log_path=") + "." + strconv.Itoa(os.Getpid())}
		}
	}
	return nil
}

func (r *raceLogReader) next() string {
	if r == nil {
		return ""
	}
	b, err := os.ReadFile(r.path)
	if err != nil || int64(len(b)) <= r.off {
		return ""
	}
	s := string(b[r.off:])
	r.off = int64(len(b))
	return s
}
