package sim

// Scheduler: real goroutines of the emulator, parked at hook sites and released
// one at a time by the simulator. Everything a *task* (an emulator goroutine)
// executes in this file is //go:norace and brackets its synchronisation with
// raceOff/raceOn so that, in a -race build, the simulator contributes no
// happens-before edges between emulator goroutines (DESIGN.md 2.7). For the same
// reason task-side code uses only fixed arrays and scalars: no maps, no append,
// no fmt.

import (
	"fmt"
	"runtime"
	"sync"
)

const maxTasks = 512
const maxOwners = 64

type task struct {
	used   bool
	kind   string
	id     int64
	seq    int
	gid    uint64
	wake   chan struct{}
	parked bool
	want   *sync.Mutex
	site   string
	sel    int // which select case the task looks at first after this release
	// granted: the scheduler released the task into the mutex it wanted (as
	// opposed to the wake-up of everybody at teardown)
	granted bool
	parks   int // number of times parked (for spin detection)
	spins   int // consecutive parks at a spin site
}

type ownerEnt struct {
	mu   *sync.Mutex
	slot int
}

type seqEnt struct {
	kind string
	id   int64
	n    int
}

type Sched struct {
	mu          sync.Mutex
	tasks       [maxTasks]task
	owners      [maxOwners]ownerEnt
	seqs        [maxTasks]seqEnt
	passthrough bool
	panics      [8]panicRec
	npanics     int
	overflow    bool
	probes      [64]probeEnt
	born        int
	cids        [256]cidEnt
	ncids       int
	lockWait    [64]lockWaiter
	// adoption: a goroutine the emulator started without announcing it (no task
	// hook at its start) becomes a schedulable task for the time it stands at a
	// hook site, so that code moved to a background goroutine is interleaved with
	// everything else instead of running to completion inside one step
	worldGid uint64
	anonSeq  int
	adopted  int
}

type lockWaiter struct {
	mu *sync.Mutex
	ch chan struct{}
}

type cidEnt struct {
	addr string
	id   int64
}

type panicRec struct {
	kind  string
	id    int64
	value string
	stack string
}

type probeEnt struct {
	name string
	n    int
}

// goStartNumber: n of a site "go.start#n", else 0.
//
//go:norace
func goStartNumber(site string) int {
	const p = "go.start#"
	if len(site) <= len(p) || site[:len(p)] != p {
		return 0
	}
	n := 0
	for i := len(p); i < len(site); i++ {
		c := site[i]
		if c < '0' || c > '9' {
			return 0
		}
		n = n*10 + int(c-'0')
	}
	return n
}

//go:norace
func siteBase(site string) string {
	for i := 0; i < len(site); i++ {
		if site[i] == '#' {
			return site[:i]
		}
	}
	return site
}

//go:norace
func curGid() uint64 {
	var buf [64]byte
	n := runtime.Stack(buf[:], false)
	var id uint64
	for i := 10; i < n; i++ {
		c := buf[i]
		if c < '0' || c > '9' {
			break
		}
		id = id*10 + uint64(c-'0')
	}
	return id
}

//go:norace
func (s *Sched) find(g uint64) int {
	for i := range s.tasks {
		if s.tasks[i].used && s.tasks[i].gid == g {
			return i
		}
	}
	return -1
}

//go:norace
func (s *Sched) taskBegin(kind string, id int64) {
	raceOff()
	g := curGid()
	s.mu.Lock()
	n := 0
	for i := range s.seqs {
		if s.seqs[i].kind == "" {
			s.seqs[i].kind, s.seqs[i].id = kind, id
		}
		if s.seqs[i].kind == kind && s.seqs[i].id == id {
			s.seqs[i].n++
			n = s.seqs[i].n
			break
		}
	}
	placed := false
	for i := range s.tasks {
		if !s.tasks[i].used {
			s.tasks[i] = task{used: true, kind: kind, id: id, seq: n, gid: g}
			placed = true
			break
		}
	}
	if !placed {
		s.overflow = true
	}
	s.born++
	s.mu.Unlock()
	raceOn()
}

//go:norace
func (s *Sched) taskEnd() {
	raceOff()
	g := curGid()
	s.mu.Lock()
	if i := s.find(g); i >= 0 {
		s.tasks[i].used = false
		// a dying task cannot own a mutex any more (panic paths run the
		// deferred unlocks first, so this is only a safety net)
		for j := range s.owners {
			if s.owners[j].mu != nil && s.owners[j].slot == i {
				m := s.owners[j].mu
				s.owners[j].mu = nil
				s.wakeWaitersLocked(m)
			}
		}
	}
	s.mu.Unlock()
	raceOn()
}

//go:norace
func (s *Sched) park(want *sync.Mutex, site string) {
	raceOff()
	g := curGid()
	s.mu.Lock()
	i := s.find(g)
	anon := false
	if i < 0 && !s.passthrough && s.worldGid != 0 && g != s.worldGid {
		for j := range s.tasks {
			if !s.tasks[j].used {
				s.adopted++
				kind, seq := "anon", 0
				if n := goStartNumber(site); n > 0 {
					// a goroutine started through simGo: numbered by its spawner
					kind, seq = "go", n
				} else {
					s.anonSeq++
					seq = s.anonSeq
				}
				s.tasks[j] = task{used: true, kind: kind, id: 0, seq: seq, gid: g}
				i, anon = j, true
				break
			}
		}
		site = siteBase(site)
	}
	if i >= 0 && !s.passthrough {
		t := &s.tasks[i]
		t.want = want
		t.site = site
		t.wake = make(chan struct{})
		t.parked = true
		t.parks++
		if site == "cs.spin" {
			t.spins++
		} else if site != "cs.atomic" {
			t.spins = 0
		}
		w := t.wake
		s.mu.Unlock()
		<-w
		if want == nil {
			if anon {
				s.mu.Lock()
				s.tasks[i].used = false
				s.mu.Unlock()
			}
			raceOn()
			return
		}
		s.mu.Lock()
		if s.tasks[i].granted && s.ownerSlotLocked(want) == i {
			// released by the scheduler, which recorded the ownership
			// (not enough to look at the owner table: a task that wants a mutex it
			// holds itself - a self-deadlock - is its owner too, and at teardown
			// it must wait below, durably, instead of entering the real Lock)
			s.tasks[i].granted = false
			if anon {
				// the slot is given back; the mutex stays owned (by nobody the table knows)
				for j := range s.owners {
					if s.owners[j].mu == want {
						s.owners[j].slot = -1
					}
				}
				s.tasks[i].used = false
			}
			s.mu.Unlock()
			raceOn()
			return
		}
		// woken by releaseAll (teardown): take the shadow lock below
		if anon {
			s.tasks[i].used = false
			i = -1
		}
	}
	// Unregistered goroutine, or teardown (pass-through): nothing is parked,
	// but a mutex is still acquired through the owner table first, waiting on
	// a channel while somebody else holds it. Blocking on the real mutex would
	// not be a durable block: the bubble's clock stops while any goroutine
	// waits for a sync.Mutex, and emulator code that sleeps while holding a
	// lock (the back-off loop of clientState.unblock under RequestClose) would
	// never wake up.
	if want == nil {
		s.mu.Unlock()
		raceOn()
		return
	}
	for {
		if !s.ownedLocked(want) {
			s.setOwner(want, i)
			s.mu.Unlock()
			raceOn()
			return
		}
		ch := make(chan struct{})
		placed := false
		for j := range s.lockWait {
			if s.lockWait[j].mu == nil {
				s.lockWait[j] = lockWaiter{mu: want, ch: ch}
				placed = true
				break
			}
		}
		s.mu.Unlock()
		if !placed {
			// table full: fall back to the real mutex
			raceOn()
			return
		}
		<-ch
		s.mu.Lock()
	}
}

// wakeWaitersLocked wakes the goroutines waiting for the shadow of mu.
//
//go:norace
func (s *Sched) wakeWaitersLocked(mu *sync.Mutex) {
	for j := range s.lockWait {
		if s.lockWait[j].mu == mu {
			close(s.lockWait[j].ch)
			s.lockWait[j] = lockWaiter{}
		}
	}
}

//go:norace
func (s *Sched) ownerSlotLocked(mu *sync.Mutex) int {
	for i := range s.owners {
		if s.owners[i].mu == mu {
			return s.owners[i].slot
		}
	}
	return -2
}

//go:norace
func (s *Sched) setOwner(mu *sync.Mutex, slot int) {
	for i := range s.owners {
		if s.owners[i].mu == nil {
			s.owners[i] = ownerEnt{mu: mu, slot: slot}
			return
		}
	}
	s.overflow = true
}

//go:norace
func (s *Sched) afterUnlock(mu *sync.Mutex, site string) {
	raceOff()
	s.mu.Lock()
	for i := range s.owners {
		if s.owners[i].mu == mu {
			s.owners[i].mu = nil
		}
	}
	s.wakeWaitersLocked(mu)
	s.mu.Unlock()
	raceOn()
}

//go:norace
func (s *Sched) ownedLocked(mu *sync.Mutex) bool {
	for i := range s.owners {
		if s.owners[i].mu == mu {
			return true
		}
	}
	return false
}

//go:norace
func (s *Sched) recordPanic(value string, stack string) {
	raceOff()
	g := curGid()
	s.mu.Lock()
	if s.npanics < len(s.panics) {
		p := &s.panics[s.npanics]
		p.value, p.stack = value, stack
		if i := s.find(g); i >= 0 {
			p.kind, p.id = s.tasks[i].kind, s.tasks[i].id
		}
		s.npanics++
	}
	s.mu.Unlock()
	raceOn()
}

//go:norace
func (s *Sched) probe(name string) {
	raceOff()
	s.mu.Lock()
	for i := range s.probes {
		if s.probes[i].name == "" {
			s.probes[i].name = name
		}
		if s.probes[i].name == name {
			s.probes[i].n++
			break
		}
	}
	s.mu.Unlock()
	raceOn()
}

// ---- scheduler side (called only from the scheduler goroutine, after synctest.Wait) ----

type cand struct {
	slot  int
	kind  string
	id    int64
	seq   int
	site  string
	want  *sync.Mutex
	spins int
	parks int
}

// snapshot copies out the parked tasks. enabled ones first is not implied;
// callers filter on blocked.
//
//go:norace
func (s *Sched) snapshot(out *[maxTasks]cand, blocked *[maxTasks]bool) (n int, alive int) {
	raceOff()
	s.mu.Lock()
	for i := range s.tasks {
		t := &s.tasks[i]
		if !t.used {
			continue
		}
		alive++
		if !t.parked {
			continue
		}
		out[n] = cand{slot: i, kind: t.kind, id: t.id, seq: t.seq, site: t.site, want: t.want, spins: t.spins, parks: t.parks}
		blocked[n] = t.want != nil && s.ownedLocked(t.want)
		n++
	}
	s.mu.Unlock()
	raceOn()
	return
}

// selectFirst is the SelectFirst hook: the answer was decided by the scheduler
// (from the tape) when it released the task from the yield point in front of
// the select.
//
//go:norace
func (s *Sched) selectFirst(site string, n int) int {
	raceOff()
	g := curGid()
	s.mu.Lock()
	r := 0
	if i := s.find(g); i >= 0 && !s.passthrough {
		r = s.tasks[i].sel
	}
	s.mu.Unlock()
	raceOn()
	if r < 0 || r >= n {
		r = 0
	}
	return r
}

//go:norace
func (s *Sched) releaseSlotSel(slot int, sel int) {
	raceOff()
	s.mu.Lock()
	s.tasks[slot].sel = sel
	s.mu.Unlock()
	raceOn()
	s.releaseSlot(slot)
}

//go:norace
func (s *Sched) releaseSlot(slot int) {
	raceOff()
	s.mu.Lock()
	t := &s.tasks[slot]
	t.parked = false
	if t.want != nil {
		s.setOwner(t.want, slot)
		t.granted = true
	}
	w := t.wake
	s.mu.Unlock()
	close(w)
	raceOn()
}

// releaseAll switches to pass-through mode and wakes every parked task.
//
//go:norace
func (s *Sched) releaseAll() {
	raceOff()
	s.mu.Lock()
	s.passthrough = true
	for i := range s.tasks {
		t := &s.tasks[i]
		if t.used && t.parked {
			t.parked = false
			close(t.wake)
		}
	}
	s.mu.Unlock()
	raceOn()
}

//go:norace
func (s *Sched) owned(mu *sync.Mutex) bool {
	raceOff()
	s.mu.Lock()
	r := s.ownedLocked(mu)
	s.mu.Unlock()
	raceOn()
	return r
}

//go:norace
func (s *Sched) ownerOf(mu *sync.Mutex) int {
	raceOff()
	s.mu.Lock()
	r := -1
	for i := range s.owners {
		if s.owners[i].mu == mu {
			r = s.owners[i].slot
		}
	}
	s.mu.Unlock()
	raceOn()
	return r
}

//go:norace
func (s *Sched) anyOwned() bool {
	raceOff()
	s.mu.Lock()
	r := false
	for i := range s.owners {
		if s.owners[i].mu != nil {
			r = true
		}
	}
	s.mu.Unlock()
	raceOn()
	return r
}

//go:norace
func (s *Sched) panicCount() int {
	raceOff()
	s.mu.Lock()
	n := s.npanics
	s.mu.Unlock()
	raceOn()
	return n
}

//go:norace
func (s *Sched) getPanic(i int) panicRec {
	raceOff()
	s.mu.Lock()
	p := s.panics[i]
	s.mu.Unlock()
	raceOn()
	return p
}

//go:norace
func (s *Sched) probeCounts() (names [64]string, counts [64]int, n int) {
	raceOff()
	s.mu.Lock()
	for i := range s.probes {
		if s.probes[i].name == "" {
			break
		}
		names[n], counts[n] = s.probes[i].name, s.probes[i].n
		n++
	}
	s.mu.Unlock()
	raceOn()
	return
}

// inSelect reports whether the dispatch task of emulator client id has passed
// the "before-wait" point of the block loop and is not parked, i.e. it sits in
// the blocking select.
//
//go:norace
func (s *Sched) inSelect(id int64) bool {
	raceOff()
	s.mu.Lock()
	r := false
	for i := range s.tasks {
		t := &s.tasks[i]
		if t.used && t.kind == "cmd" && t.id == id && !t.parked && t.site == "block.before-wait" {
			r = true
		}
	}
	s.mu.Unlock()
	raceOn()
	return r
}

//go:norace
func (s *Sched) clientBorn(id int64, addr string) {
	raceOff()
	s.mu.Lock()
	if s.ncids < len(s.cids) {
		s.cids[s.ncids] = cidEnt{addr: addr, id: id}
		s.ncids++
	}
	s.mu.Unlock()
	raceOn()
}

//go:norace
func (s *Sched) clientIdOf(addr string) int64 {
	raceOff()
	s.mu.Lock()
	var id int64
	for i := 0; i < s.ncids; i++ {
		if s.cids[i].addr == addr {
			id = s.cids[i].id
		}
	}
	s.mu.Unlock()
	raceOn()
	return id
}

// describe lists every live task: name, whether it is parked (and where) or
// blocked inside the emulator, and the site it passed last.
func (s *Sched) describe() string {
	var cs [maxTasks]cand
	var bl [maxTasks]bool
	n, _ := s.snapshot(&cs, &bl)
	parked := map[int]bool{}
	out := ""
	for i := 0; i < n; i++ {
		parked[cs[i].slot] = true
		st := "parked"
		if bl[i] {
			st = "parked, wants a held mutex"
		}
		out += fmt.Sprintf("    %s: %s at %s\n", candName(&cs[i]), st, cs[i].site)
	}
	for i := range s.tasks {
		t := &s.tasks[i]
		if t.used && !parked[i] {
			out += fmt.Sprintf("    c%d.%s#%d: blocked inside the emulator after %s\n", t.id, t.kind, t.seq, t.site)
		}
	}
	return out
}
