package sim

import (
	"sort"
	"strconv"
	"strings"
)

func init() {
	del := func(m *Model, s *Sess, a []string, _ bool) Expect {
		n := int64(0)
		for _, k := range a[1:] {
			if m.del(s, k) {
				n++
			}
		}
		return eInt(n)
	}
	reg("del", -2, true, del)
	reg("unlink", -2, true, del)
	count := func(m *Model, s *Sess, a []string, _ bool) Expect {
		n := int64(0)
		for _, k := range a[1:] {
			if m.get(s, k) != nil {
				n++
			}
		}
		return eInt(n)
	}
	reg("exists", -2, false, count)
	reg("touch", -2, false, count)
	reg("type", 2, false, func(m *Model, s *Sess, a []string, _ bool) Expect {
		o := m.get(s, a[1])
		if o == nil {
			return eSimple("none")
		}
		return eSimple(o.T.String())
	})
	// SCAN: cursors are opaque; what can be said about one call is that every
	// returned key exists now (a key whose deadline has passed does not), passes
	// MATCH and TYPE, and that a call which starts at 0 and comes back with 0
	// has returned every such key.
	reg("scan", -2, false, func(m *Model, s *Sess, a []string, _ bool) Expect {
		pattern, typ := "*", ""
		for i := 2; i+1 < len(a); i += 2 {
			switch upper(a[i]) {
			case "MATCH":
				pattern = a[i+1]
			case "TYPE":
				typ = strings.ToLower(a[i+1])
			case "COUNT":
			default:
				return Expect{Mode: exAny}
			}
		}
		if len(a)%2 != 0 {
			return Expect{Mode: exAny}
		}
		want, optional := map[string]bool{}, map[string]bool{}
		for k, o := range m.db(s) {
			if globMatch(pattern, k) && (typ == "" || o.T.String() == typ) {
				want[k] = true
				if o.Exp != 0 && m.now >= o.Exp {
					optional[k] = true // inside the tolerance of its deadline
				}
			}
		}
		start := a[1]
		return ePred("SCAN result consistent with the keyspace", func(got Value) error {
			if got.IsErr() {
				return nil // argument errors are not this model's business
			}
			if got.K != KArray || len(got.A) != 2 || got.A[1].K != KArray {
				return errf("expected [cursor, [keys]]")
			}
			seen := map[string]bool{}
			for _, e := range got.A[1].A {
				if !want[e.S] {
					return errf("returned %q, which is not a live key matching MATCH %q TYPE %q", e.S, pattern, typ)
				}
				seen[e.S] = true
			}
			next := got.A[0].S
			if got.A[0].K == KInt {
				next = strconv.FormatInt(got.A[0].I, 10)
			}
			if start == "0" && next == "0" {
				for k := range want {
					if !seen[k] && !optional[k] {
						return errf("complete iteration in one call did not return %q", k)
					}
				}
			}
			return nil
		})
	})
	// HSCAN / SSCAN: what one call may return (a complete iteration when it
	// starts at 0 and ends at 0)
	collScan := func(hash bool) func(m *Model, s *Sess, a []string, _ bool) Expect {
		return func(m *Model, s *Sess, a []string, _ bool) Expect {
			pattern := "*"
			for i := 3; i+1 < len(a); i += 2 {
				switch upper(a[i]) {
				case "MATCH":
					pattern = a[i+1]
				case "COUNT":
				default:
					return Expect{Mode: exAny}
				}
			}
			if len(a)%2 == 0 {
				return Expect{Mode: exAny}
			}
			if _, ok := parseInt(a[2]); !ok {
				return Expect{Mode: exAny}
			}
			o := m.get(s, a[1])
			want := map[string]string{}
			if o != nil {
				if hash && o.T != tHash || !hash && o.T != tSet {
					return eWrongType()
				}
				if hash {
					for f, v := range o.H {
						if globMatch(pattern, f) {
							want[f] = v
						}
					}
				} else {
					for x := range o.Z {
						if globMatch(pattern, x) {
							want[x] = ""
						}
					}
				}
			}
			start := a[2]
			var hf map[string]bool
			if o != nil {
				hf = o.HF
			}
			return ePred("scan result consistent with the collection", func(got Value) error {
				if got.IsErr() {
					return nil // argument errors are not this model's business
				}
				if got.K != KArray || len(got.A) != 2 || got.A[1].K != KArray {
					return errf("expected [cursor, [elements]]")
				}
				els := got.A[1].A
				seen := map[string]bool{}
				step := 1
				if hash {
					step = 2
					if len(els)%2 != 0 {
						return errf("odd number of elements")
					}
				}
				for i := 0; i+step-1 < len(els); i += step {
					v, ok := want[els[i].S]
					if !ok {
						return errf("returned %q, which is not an element matching MATCH %q", els[i].S, pattern)
					}
					if hash && !hf[els[i].S] && els[i+1].S != v {
						return errf("field %q returned with value %q, expected %q", els[i].S, clipS(els[i+1].S, 40), clipS(v, 40))
					}
					seen[els[i].S] = true
				}
				next := got.A[0].S
				if got.A[0].K == KInt {
					next = strconv.FormatInt(got.A[0].I, 10)
				}
				if start == "0" && next == "0" {
					for k := range want {
						if !seen[k] {
							return errf("complete iteration in one call did not return %q", k)
						}
					}
				}
				return nil
			})
		}
	}
	reg("hscan", -3, false, collScan(true))
	reg("sscan", -3, false, collScan(false))
	reg("rename", 3, true, func(m *Model, s *Sess, a []string, _ bool) Expect {
		o := m.get(s, a[1])
		if o == nil {
			return eErr(errERR)
		}
		if a[1] == a[2] {
			return eOK()
		}
		m.del(s, a[1])
		m.set(s, a[2], o)
		return eOK()
	})
	reg("renamenx", 3, true, func(m *Model, s *Sess, a []string, _ bool) Expect {
		o := m.get(s, a[1])
		if o == nil {
			return eErr(errERR)
		}
		if m.get(s, a[2]) != nil {
			return eInt(0)
		}
		m.del(s, a[1])
		m.set(s, a[2], o)
		return eInt(1)
	})
	reg("copy", -3, true, func(m *Model, s *Sess, a []string, _ bool) Expect {
		replace := false
		db := s.DB
		for i := 3; i < len(a); i++ {
			switch upper(a[i]) {
			case "REPLACE":
				replace = true
			case "DB":
				if i+1 >= len(a) {
					return eArgErr()
				}
				n, ok := parseInt(a[i+1])
				if !ok || n < 0 || n > 15 {
					return eArgErr()
				}
				db = int(n)
				i++
			default:
				return eArgErr()
			}
		}
		if db == s.DB && a[1] == a[2] {
			return eArgErr()
		}
		o := m.get(s, a[1])
		if o == nil {
			return eInt(0)
		}
		if _, exists := m.dbs[db][a[2]]; exists && !replace {
			return eInt(0)
		}
		m.dbs[db][a[2]] = o.clone()
		m.touchVer(db, a[2])
		return eInt(1)
	})
	reg("keys", 2, false, func(m *Model, s *Sess, a []string, _ bool) Expect {
		var out []string
		for _, k := range sortedKeys(m.db(s)) {
			if globMatch(a[1], k) {
				out = append(out, k)
			}
		}
		return eUnordered(out)
	})
	reg("randomkey", 1, false, func(m *Model, s *Sess, a []string, _ bool) Expect {
		if len(m.db(s)) == 0 {
			return eNil()
		}
		ks := map[string]bool{}
		for k := range m.db(s) {
			ks[k] = true
		}
		return ePred("an existing key", func(got Value) error {
			if got.K != KBulk || !ks[got.S] {
				return errf("not an existing key")
			}
			return nil
		})
	})
	reg("dbsize", 1, false, func(m *Model, s *Sess, a []string, _ bool) Expect {
		return eInt(int64(len(m.db(s))))
	})
	reg("sort", -2, true, mSort)

	// ---- expiry
	reg("expire", -3, true, func(m *Model, s *Sess, a []string, _ bool) Expect { return mExpire(m, s, a, 1000, true) })
	reg("pexpire", -3, true, func(m *Model, s *Sess, a []string, _ bool) Expect { return mExpire(m, s, a, 1, true) })
	reg("expireat", -3, true, func(m *Model, s *Sess, a []string, _ bool) Expect { return mExpire(m, s, a, 1000, false) })
	reg("pexpireat", -3, true, func(m *Model, s *Sess, a []string, _ bool) Expect { return mExpire(m, s, a, 1, false) })
	ttl := func(ms bool, abs bool) func(m *Model, s *Sess, a []string, _ bool) Expect {
		return func(m *Model, s *Sess, a []string, _ bool) Expect {
			o := m.get(s, a[1])
			if o == nil {
				return eInt(-2)
			}
			if o.Exp == 0 {
				return eInt(-1)
			}
			v := o.Exp
			if !abs {
				v = o.Exp - m.now
				if v < 0 {
					v = 0
				}
			}
			vms := v / int64(1e6)
			if ms {
				return eIntNear(vms, 1)
			}
			return eIntNear((vms+500)/1000, 1)
		}
	}
	reg("ttl", 2, false, ttl(false, false))
	reg("pttl", 2, false, ttl(true, false))
	reg("expiretime", 2, false, ttl(false, true))
	reg("pexpiretime", 2, false, ttl(true, true))
	reg("persist", 2, true, func(m *Model, s *Sess, a []string, _ bool) Expect {
		o := m.get(s, a[1])
		if o == nil || o.Exp == 0 {
			return eInt(0)
		}
		o.Exp, o.Slack = 0, 0
		m.modified(s, a[1])
		return eInt(1)
	})

	// ---- connection / server
	reg("ping", -1, false, func(m *Model, s *Sess, a []string, _ bool) Expect {
		if len(a) > 2 {
			return eArgErr()
		}
		if len(a) == 2 {
			return eBulk(a[1])
		}
		return eSimple("PONG")
	})
	reg("echo", 2, false, func(m *Model, s *Sess, a []string, _ bool) Expect { return eBulk(a[1]) })
	reg("select", 2, false, func(m *Model, s *Sess, a []string, _ bool) Expect {
		n, ok := parseInt(a[1])
		if !ok || n < 0 || n > 15 {
			return eArgErr()
		}
		s.DB = int(n)
		return eOK()
	})
	flush := func(all bool) func(m *Model, s *Sess, a []string, _ bool) Expect {
		return func(m *Model, s *Sess, a []string, _ bool) Expect {
			if len(a) > 2 {
				return eArgErr()
			}
			if len(a) == 2 {
				if o := upper(a[1]); o != "ASYNC" && o != "SYNC" {
					return eArgErr()
				}
			}
			for i := range m.dbs {
				if all || i == s.DB {
					for k := range m.dbs[i] {
						delete(m.dbs[i], k)
						m.touchVer(i, k)
					}
				}
			}
			return eOK()
		}
	}
	reg("flushdb", -1, true, flush(false))
	reg("flushall", -1, true, flush(true))

	// ---- transactions
	reg("multi", 1, false, func(m *Model, s *Sess, a []string, _ bool) Expect {
		if s.InMulti {
			return eErr(errERR)
		}
		s.InMulti, s.Dirty, s.Queue = true, false, nil
		return eOK()
	})
	reg("discard", 1, false, func(m *Model, s *Sess, a []string, _ bool) Expect {
		if !s.InMulti {
			return eErr(errERR)
		}
		s.resetTx()
		return eOK()
	})
	reg("watch", -2, false, func(m *Model, s *Sess, a []string, inExec bool) Expect {
		if s.InMulti || inExec {
			return eErr(errERR)
		}
		for _, k := range a[1:] {
			wk := wkey{s.DB, k}
			if _, ok := s.Watch[wk]; !ok {
				s.Watch[wk] = m.ver[wk]
				s.WatchMiss[wk] = m.dbs[wk.db][wk.key] == nil
			}
		}
		return eOK()
	})
	reg("unwatch", 1, false, func(m *Model, s *Sess, a []string, inExec bool) Expect {
		if !inExec {
			s.Watch = map[wkey]uint64{}
			s.WatchMiss = map[wkey]bool{}
		}
		return eOK()
	})
	reg("exec", 1, true, func(m *Model, s *Sess, a []string, _ bool) Expect {
		if !s.InMulti {
			return eErr(errERR)
		}
		if s.Dirty {
			s.resetTx()
			return eErr("EXECABORT")
		}
		for wk, v := range s.Watch {
			if m.ver[wk] != v {
				if m.abaTolerant && s.WatchMiss[wk] && m.dbs[wk.db][wk.key] == nil {
					continue
				}
				s.resetTx()
				return eNil()
			}
		}
		q := s.Queue
		s.resetTx()
		base, bs := m.Clone(), s.Clone()
		sub := make([]Expect, 0, len(q))
		lazy := false
		for _, c := range q {
			name := strings.ToLower(c[0])
			r := m.exec1(s, name, c, true)
			if r.Resolve != nil {
				lazy = true
			}
			sub = append(sub, r)
		}
		m.purge()
		e := eArr(sub...)
		if !lazy {
			return e
		}
		// A queued command whose outcome the model leaves open (Resolve) may
		// decide what later queued commands see: the queue is re-run on a
		// copy of the state before EXEC, element by element, each open
		// outcome being resolved from the observed reply before the next
		// command is modelled; the result replaces the speculative state.
		var done *Model
		var doneS *Sess
		shown := e.String()
		e = ePred("EXEC "+shown, func(got Value) error {
			if got.K != KArray || len(got.A) != len(q) {
				return errf("expected an array of %d replies", len(q))
			}
			mm, ss := base.Clone(), bs.Clone()
			for i, c := range q {
				r := mm.exec1(ss, strings.ToLower(c[0]), c, true)
				if err := r.Match(got.A[i]); err != nil {
					return errf("queued command %d (%s): %v", i, c[0], err)
				}
				if r.Resolve != nil {
					r.Resolve(got.A[i])
				}
			}
			mm.purge()
			done, doneS = mm, ss
			return nil
		})
		e.Resolve = func(got Value) {
			if done != nil {
				*m = *done
				*s = *doneS
			}
		}
		return e
	})
}

func mExpire(m *Model, s *Sess, a []string, unitMs int64, relative bool) Expect {
	n, ok := parseInt(a[2])
	if !ok {
		return eArgErr()
	}
	nx, xx, gt, lt := false, false, false, false
	for _, f := range a[3:] {
		switch upper(f) {
		case "NX":
			nx = true
		case "XX":
			xx = true
		case "GT":
			gt = true
		case "LT":
			lt = true
		default:
			return eArgErr()
		}
	}
	if (nx && (xx || gt || lt)) || (gt && lt) {
		return eArgErr()
	}
	nowMs := m.now / int64(1e6)
	if unitMs == 1000 {
		if n > maxInt64/1000 || n < minInt64/1000 {
			return eArgErr()
		}
	}
	whenMs := n * unitMs
	var when int64 // absolute ns
	if relative {
		if whenMs > maxInt64-nowMs {
			return eArgErr()
		}
		if whenMs > (maxInt64-m.now)/int64(1e6) {
			when = maxInt64
		} else if whenMs < (minInt64+m.now)/int64(1e6) {
			when = minInt64
		} else {
			when = m.now + whenMs*int64(1e6)
		}
	} else {
		if whenMs > maxInt64/int64(1e6) {
			when = maxInt64
		} else if whenMs < minInt64/int64(1e6) {
			when = minInt64
		} else {
			when = whenMs * int64(1e6)
		}
	}
	o := m.get(s, a[1])
	if o == nil {
		return eInt(0)
	}
	cur := o.Exp
	if nx && cur != 0 {
		return eInt(0)
	}
	if xx && cur == 0 {
		return eInt(0)
	}
	if gt && (cur == 0 || when <= cur) {
		return eInt(0)
	}
	if lt && cur != 0 && when >= cur {
		return eInt(0)
	}
	if when <= m.now {
		m.del(s, a[1])
		return eInt(1)
	}
	o.Exp, o.Slack = when, 0
	m.modified(s, a[1])
	return eInt(1)
}

// globMatch implements Redis' glob-style patterns: * ? [set] [^set] [a-z] \x
func globMatch(pat, str string) bool {
	p, s := 0, 0
	for p < len(pat) {
		switch pat[p] {
		case '*':
			for p+1 < len(pat) && pat[p+1] == '*' {
				p++
			}
			if p+1 == len(pat) {
				return true
			}
			for i := s; i <= len(str); i++ {
				if globMatch(pat[p+1:], str[i:]) {
					return true
				}
			}
			return false
		case '?':
			if s >= len(str) {
				return false
			}
			s++
			p++
		case '[':
			if s >= len(str) {
				return false
			}
			p++
			not := false
			if p < len(pat) && pat[p] == '^' {
				not = true
				p++
			}
			match := false
			for {
				if p < len(pat) && pat[p] == '\\' && p+1 < len(pat) {
					p++
					if pat[p] == str[s] {
						match = true
					}
				} else if p < len(pat) && pat[p] == ']' {
					break
				} else if p >= len(pat) {
					p--
					break
				} else if p+2 < len(pat) && pat[p+1] == '-' {
					lo, hi := pat[p], pat[p+2]
					if lo > hi {
						lo, hi = hi, lo
					}
					p += 2
					if str[s] >= lo && str[s] <= hi {
						match = true
					}
				} else if pat[p] == str[s] {
					match = true
				}
				p++
			}
			if not {
				match = !match
			}
			if !match {
				return false
			}
			s++
			p++
		case '\\':
			if p+1 < len(pat) {
				p++
			}
			fallthrough
		default:
			if s >= len(str) || pat[p] != str[s] {
				return false
			}
			s++
			p++
		}
	}
	return s == len(str)
}

// SORT key [BY pattern] [LIMIT offset count] [GET pattern ...] [ASC|DESC] [ALPHA] [STORE dst]
func mSort(m *Model, s *Sess, a []string, _ bool) Expect {
	key := a[1]
	by, store := "", ""
	hasBy, hasStore, hasLimit := false, false, false
	var gets []string
	desc, alpha := false, false
	off, cnt := int64(0), int64(-1)
	for i := 2; i < len(a); i++ {
		switch upper(a[i]) {
		case "ASC":
			desc = false
		case "DESC":
			desc = true
		case "ALPHA":
			alpha = true
		case "LIMIT":
			if i+2 >= len(a) {
				return eArgErr()
			}
			o1, ok1 := parseInt(a[i+1])
			c1, ok2 := parseInt(a[i+2])
			if !ok1 || !ok2 {
				return eArgErr()
			}
			off, cnt, hasLimit = o1, c1, true
			i += 2
		case "BY":
			if i+1 >= len(a) {
				return eArgErr()
			}
			by, hasBy = a[i+1], true
			i++
		case "GET":
			if i+1 >= len(a) {
				return eArgErr()
			}
			gets = append(gets, a[i+1])
			i++
		case "STORE":
			if i+1 >= len(a) {
				return eArgErr()
			}
			store, hasStore = a[i+1], true
			i++
		default:
			return eArgErr()
		}
	}
	_ = hasLimit
	o := m.get(s, key)
	if o != nil && o.T != tList && o.T != tSet {
		return eWrongType()
	}
	var elems []string
	if o != nil {
		if o.T == tList {
			elems = append(elems, o.L...)
		} else {
			elems = sortedKeys(o.Z)
		}
	}
	lookup := func(pat, elem string) (string, bool) {
		if pat == "#" {
			return elem, true
		}
		star := strings.IndexByte(pat, '*')
		if star < 0 {
			return "", false
		}
		field := ""
		kp := pat
		if arrow := strings.Index(pat, "->"); arrow >= 0 && arrow > star {
			kp, field = pat[:arrow], pat[arrow+2:]
		}
		k := kp[:star] + elem + kp[star+1:]
		ko := m.get(s, k)
		if ko == nil {
			return "", false
		}
		if field != "" {
			if ko.T != tHash {
				return "", false
			}
			v, ok := ko.H[field]
			return v, ok
		}
		if ko.T != tString {
			return "", false
		}
		return ko.S, true
	}
	noSort := hasBy && !strings.Contains(by, "*")
	unordered := false
	if noSort {
		if o != nil && o.T == tSet && !hasStore {
			// Redis still sorts a set lexicographically for STORE; for a plain
			// reply the order of a set is unspecified
			unordered = true
		}
	} else {
		type ent struct {
			e      string
			score  float64
			weight string
			hasW   bool
		}
		ents := make([]ent, len(elems))
		for i, e := range elems {
			w, has := e, true
			if hasBy {
				w, has = lookup(by, e)
			}
			ents[i] = ent{e: e, weight: w, hasW: has}
			if !alpha {
				if has {
					f, ok := parseFloat(w)
					if !ok {
						return eArgErr()
					}
					ents[i].score = f
				}
			}
		}
		sort.SliceStable(ents, func(i, j int) bool {
			x, y := ents[i], ents[j]
			c := 0
			if !alpha {
				if x.score < y.score {
					c = -1
				} else if x.score > y.score {
					c = 1
				} else {
					c = strings.Compare(x.e, y.e)
				}
			} else if hasBy {
				switch {
				case !x.hasW && !y.hasW:
					c = 0
				case !x.hasW:
					c = -1
				case !y.hasW:
					c = 1
				default:
					c = strings.Compare(x.weight, y.weight)
				}
			} else {
				c = strings.Compare(x.e, y.e)
			}
			if desc {
				return c > 0
			}
			return c < 0
		})
		for i := range ents {
			elems[i] = ents[i].e
		}
	}
	// LIMIT
	n := int64(len(elems))
	start, end := int64(0), n-1
	if hasLimit {
		start = off
		if start < 0 {
			start = 0
		}
		if cnt >= 0 {
			end = start + cnt - 1
		}
	}
	if start >= n {
		start, end = n-1, n-2
	}
	if end >= n {
		end = n - 1
	}
	var sel []string
	if n > 0 && end >= start {
		sel = elems[start : end+1]
	}
	var out []Expect
	var outStr []string
	for _, e := range sel {
		if len(gets) == 0 {
			out = append(out, eBulk(e))
			outStr = append(outStr, e)
			continue
		}
		for _, g := range gets {
			v, ok := lookup(g, e)
			if ok {
				out = append(out, eBulk(v))
				outStr = append(outStr, v)
			} else {
				out = append(out, eNil())
				outStr = append(outStr, "")
			}
		}
	}
	if hasStore {
		if len(outStr) == 0 {
			m.del(s, store)
			return eInt(0)
		}
		m.set(s, store, &mObj{T: tList, L: outStr})
		return eInt(int64(len(outStr)))
	}
	if unordered && len(gets) == 0 && !hasLimit {
		return eUnordered(outStr)
	}
	if unordered {
		return Expect{Mode: exAny}
	}
	return eArr(out...)
}

var _ = strconv.Itoa

func init() {
	reg("client", -2, false, func(m *Model, s *Sess, a []string, _ bool) Expect {
		switch upper(a[1]) {
		case "SETNAME":
			if len(a) != 3 {
				return eArgErr()
			}
			for i := 0; i < len(a[2]); i++ {
				if a[2][i] < 33 || a[2][i] > 126 {
					return eArgErr()
				}
			}
			s.Name = a[2]
			return eOK()
		case "GETNAME":
			if len(a) != 2 {
				return eArgErr()
			}
			if s.Name == "" {
				return eNil()
			}
			return eBulk(s.Name)
		case "ID":
			if len(a) != 2 {
				return eArgErr()
			}
			return ePred("a client id", func(got Value) error {
				if got.K != KInt || got.I <= 0 {
					return errf("not a positive integer")
				}
				return nil
			})
		}
		return Expect{Mode: exAny}
	})
}
