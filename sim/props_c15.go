package sim

import (
	"fmt"
	"sort"
	"strconv"
	"strings"
)

// C15: RESP2 and RESP3 carry the same information; HELLO switches per connection.
//
// Two twin connections run the same command sequence on two different
// databases (equal, independent state), taking turns; HELLO commands are
// sprinkled on either twin and on a bystander. The oracle is relational:
// parse both replies and require down(RESP3 reply) == RESP2 reply.

func genProtoPlan(seed uint64, thorough bool) *Plan {
	g := newGen(seed, 8)
	g.keys = []string{"k0", "k1", "k2", "k3"}
	p := &Plan{Prop: "C15", Seed: seed, Class: "twins", Knobs: Knobs{Turns: true, RandSeed: int64(seed), MaxSteps: 100000, Sticky: 60}}
	p.Knobs.Frag = g.chance(3)
	hooked := g.chance(3)
	var a, b, by []Item
	if hooked {
		// the owner of the emulator has installed a dispatch hook that answers
		// some commands itself
		a, b, by = []Item{{Op: "barrier", N: 1}}, []Item{{Op: "barrier", N: 1}}, []Item{{Op: "barrier", N: 1}}
	}
	a = append(a, cmdItem("SELECT", "1"))
	b = append(b, cmdItem("SELECT", "2"), cmdItem("HELLO", "3"))
	by = append(by, cmdItem("SELECT", "3"))
	n := 10 + g.r.IntN(40)
	for i := 0; i < n; i++ {
		var c []string
		switch g.r.IntN(14) {
		case 0:
			c = g.stringCmd(simEpochNs)
		case 1, 2:
			c = g.listCmd()
		case 3, 4, 5:
			c = g.hashCmd()
		case 6, 7, 8:
			c = g.setCmd()
		case 9:
			c = g.keyCmd()
		case 10:
			c = g.expireCmd(simEpochNs)
		case 11:
			c = g.pick2([][]string{{"HGETALL", g.key()}, {"SMEMBERS", g.key()}, {"HRANDFIELD", g.key(), "3", "WITHVALUES"}, {"HRANDFIELD", g.key(), g.pick("-4", "-7", "-1"), "WITHVALUES"}, {"HRANDFIELD", g.key(), g.pick("-5", "2")}, {"SRANDMEMBER", g.key(), g.pick("-6", "3")},
				{"HINCRBYFLOAT", g.key(), "big", g.pick("100000001", "16777217", "0.1", "1e15")}, {"INCRBYFLOAT", g.key(), g.pick("100000001.5", "16777217")}, {"LCS", g.key(), g.key(), "IDX"}, {"INCRBYFLOAT", g.key(), "1.5"}, {"HINCRBYFLOAT", g.key(), "f1", "0.25"}, {"CLIENT", "INFO"}, {"CLIENT", "LIST"}, {"INFO"}, {"INFO", "server"}, {"INFO", "clients"}, {"COMMAND", "COUNT"}, {"SMISMEMBER", g.key(), "m1", "m2"}, {"EXISTS", g.key()}, {"TYPE", g.key()}, {"PING"}, {"ECHO", "x"}, {"CLIENT", "GETNAME"}, {"SISMEMBER", g.key(), "m1"},
				// nested aggregates: map -> array -> map
				{"COMMAND", "DOCS", g.pick("get", "set", "hello", "client", "lpos", "sort", "bitfield", "nosuchcmd")}, {"COMMAND", "INFO", g.pick("get", "lmpop", "client", "exec")},
				{"COMMAND", "DOCS", g.pick("hset", "sintercard"), g.pick("lrange", "expire")}, {"COMMAND", "LIST", "FILTERBY", "PATTERN", g.pick("h*", "s[a-m]*", "client*")}, {"COMMAND", "GETKEYS", "MSET", "a", "1", "b", "2"}})
		case 12:
			c = g.shape()
		default:
			c = g.shape()
		}
		if isBlockingCmd(c[0]) || strings.EqualFold(c[0], "COPY") && false {
			c = []string{"LLEN", g.key()}
		}
		if hooked && g.chance(6) {
			c = []string{"ECHO", g.pick("hook:map", "hook:double", "hook:bool", "hook:set", "hook:list", "plain", "hook:set2", "hook:map2")}
		}
		it := Item{Args: bs(c...)}
		a = append(a, it)
		b = append(b, it)
		if g.chance(5) {
			by = append(by, it)
		}
		if g.chance(10) {
			// a protocol switch queued in a transaction: the EXEC reply is emitted
			// after the switch, in the protocol the connection speaks by then
			typedCmd := func() []string {
				return g.pick2([][]string{{"HGETALL", g.key()}, {"HINCRBYFLOAT", g.key(), "f1", "0.25"}, {"SMEMBERS", g.key()}, {"INCRBYFLOAT", g.key(), "1.5"}, {"HSET", g.key(), g.field(), g.val()},
					{"SADD", g.key(), g.member()}, {"SMISMEMBER", g.key(), "m1", "m2"}, {"GET", g.key()}, {"CONFIG", "GET", "maxmemory"}, {"LRANGE", g.key(), "0", "-1"}})
			}
			blockA, blockB := []Item{cmdItem("MULTI")}, []Item{cmdItem("MULTI")}
			both := func(c []string) {
				blockA = append(blockA, Item{Args: bs(c...)})
				blockB = append(blockB, Item{Args: bs(c...)})
			}
			for j := 0; j <= g.r.IntN(3); j++ {
				both(typedCmd())
			}
			// (the same arguments, or two valid ones: a HELLO refused while queueing
			// aborts the transaction, and the twins' states must stay equal)
			ha := g.helloArgs()
			hb := ha
			if g.chance(2) {
				ha, hb = []string{"HELLO", g.pick("2", "3")}, []string{"HELLO", g.pick("2", "3")}
			}
			blockA = append(blockA, Item{Args: bs(ha...), Tag: "hello"})
			blockB = append(blockB, Item{Args: bs(hb...), Tag: "hello"})
			for j := 0; j < g.r.IntN(3); j++ {
				both(typedCmd())
			}
			blockA = append(blockA, Item{Args: bs("EXEC"), Tag: "exec-hello"})
			blockB = append(blockB, Item{Args: bs("EXEC"), Tag: "exec-hello"})
			a = append(a, blockA...)
			b = append(b, blockB...)
		}
		// protocol switches
		if g.chance(9) {
			h := Item{Args: bs(g.helloArgs()...), Tag: "hello"}
			switch g.r.IntN(3) {
			case 0:
				a = append(a, h)
				b = append(b, Item{Args: bs("PING"), Tag: "pad"})
			case 1:
				b = append(b, h)
				a = append(a, Item{Args: bs("PING"), Tag: "pad"})
			default:
				by = append(by, h)
			}
		}
	}
	p.Clients = []Client{{Name: "A", Items: a}, {Name: "B", Items: b}, {Name: "bystander", Items: by}}
	if hooked {
		p.Clients = append(p.Clients, Client{Name: "owner", Items: []Item{{Op: "emu-sethook", N: 0, S: "answer"}, {Op: "barrier", N: 1}}})
	}
	// the twins advance in lock step: A_i then B_i
	return p
}

func (g *Gen) pick2(xs [][]string) []string { return xs[g.r.IntN(len(xs))] }

func (g *Gen) helloArgs() []string {
	switch g.r.IntN(9) {
	case 0:
		return []string{"HELLO"}
	case 1, 2:
		return []string{"HELLO", "3"}
	case 3, 4:
		return []string{"HELLO", "2"}
	case 5:
		return []string{"HELLO", g.pick("4", "1", "0", "9", "-3")}
	case 6:
		return []string{"HELLO", g.pick("x", "3.0", "")}
	case 7:
		if g.chance(3) {
			// (text of more bytes than characters: lengths on the wire are byte lengths)
			return []string{"HELLO", g.pick("2", "3"), "SETNAME", g.pick("caf\u00e9", "\u65e5\u672c-"+strconv.Itoa(g.r.IntN(9)), "n\u20ac")}
		}
		return []string{"HELLO", g.pick("2", "3"), "SETNAME", "n" + strconv.Itoa(g.r.IntN(9))}
	default:
		return []string{"HELLO", g.pick("2", "3", "5"), "SETNAME", "bad name"}
	}
}

type protoChecker struct {
	plan    *Plan
	proto   map[int]int // per client
	replies map[int][]*Op
	typed   int
	hellos  int
	// transactions: queued protocol switches take effect when EXEC runs them
	inMulti map[int]bool
	queued  map[int][]queuedCmd
	view    map[*Op]Value // EXEC replies with the HELLO elements blanked, for the twin comparison
	execSw  int
}

type queuedCmd struct {
	hello   bool
	lenient bool // either outcome is fine (a name outside printable ASCII)
	valid   bool
	want    int // protocol a valid HELLO switches to; 0 = stays
}

func newProtoChecker(p *Plan) Checker {
	return &protoChecker{plan: p, proto: map[int]int{0: 2, 1: 2, 2: 2}, replies: map[int][]*Op{}, inMulti: map[int]bool{}, queued: map[int][]queuedCmd{}, view: map[*Op]Value{}}
}

func (c *protoChecker) OnStep(w *World) *Violation { return nil }
func (c *protoChecker) Extra() map[string]int {
	return map[string]int{"resp3-typed-compared": c.typed, "hello-switches": c.hellos, "hello-switches-inside-exec": c.execSw}
}

func hasResp3Type(v Value) string {
	switch v.K {
	case KMap, KSet, KDouble, KBool, KBigNum, KVerbatim, KPush, KBulkErr:
		return v.K.String()
	case KNil:
		if v.Null3 {
			return "null(_)"
		}
	case KArray:
		for _, e := range v.A {
			if t := hasResp3Type(e); t != "" {
				return t
			}
		}
	}
	if v.K == KMap || v.K == KSet {
		for _, e := range v.A {
			if t := hasResp3Type(e); t != "" {
				return t
			}
		}
	}
	return ""
}

// down: the canonical RESP3 -> RESP2 conversion the property lists.
func down(v Value) Value {
	switch v.K {
	case KMap, KSet, KArray, KPush:
		out := Value{K: KArray, A: make([]Value, len(v.A))}
		for i, e := range v.A {
			out.A[i] = down(e)
		}
		return out
	case KDouble:
		return Value{K: KBulk, S: v.S, F: v.F}
	case KBigNum:
		return Value{K: KBulk, S: v.S}
	case KVerbatim:
		s := v.S
		if len(s) >= 4 && s[3] == ':' {
			s = s[4:]
		}
		return Value{K: KBulk, S: s}
	case KBool:
		return Value{K: KInt, I: v.I}
	case KNil:
		return Value{K: KNil}
	case KBulkErr:
		return Value{K: KErr, S: v.S}
	}
	return v
}

// sameInfo: structural equality, numbers-as-strings compared numerically,
// unordered where the RESP3 side says map or set.
func sameInfo(r2 Value, r3 Value) bool {
	d := down(r3)
	if r3.K == KMap || r3.K == KSet {
		return unorderedEqual(r2, d, r3.K == KMap)
	}
	if r3.K == KDouble {
		if r2.K != KBulk {
			return false
		}
		f, err := strconv.ParseFloat(r2.S, 64)
		return err == nil && (floatNear(f, r3.F) || r2.S == r3.S)
	}
	if r2.K != d.K {
		return false
	}
	switch r2.K {
	case KArray:
		if len(r2.A) != len(r3.A) {
			// HRANDFIELD WITHVALUES: RESP3 nests pairs, RESP2 is flat
			flat := Value{K: KArray}
			for _, e := range r3.A {
				if e.K != KArray {
					return false
				}
				flat.A = append(flat.A, e.A...)
			}
			if len(flat.A) != len(r2.A) {
				return false
			}
			r3 = flat
		}
		for i := range r2.A {
			if !sameInfo(r2.A[i], r3.A[i]) {
				return false
			}
		}
		return true
	case KInt:
		return r2.I == d.I
	case KNil:
		return true
	case KErr:
		return r2.ErrClass() == d.ErrClass()
	default:
		return r2.S == d.S
	}
}

func unorderedEqual(r2, d Value, pairs bool) bool {
	if r2.K != KArray || len(r2.A) != len(d.A) {
		return false
	}
	key := func(v Value, i int) string {
		if pairs {
			return canon(v.A[i]) + "\x00" + canon(v.A[i+1])
		}
		return canon(v.A[i])
	}
	step := 1
	if pairs {
		step = 2
		if len(r2.A)%2 != 0 {
			return false
		}
	}
	var a, b []string
	for i := 0; i+step-1 < len(r2.A); i += step {
		a = append(a, key(r2, i))
		b = append(b, key(d, i))
	}
	sort.Strings(a)
	sort.Strings(b)
	for i := range a {
		if a[i] != b[i] {
			return false
		}
	}
	return true
}

func (c *protoChecker) OnReply(w *World, op *Op) *Violation {
	if op.Lost || len(op.Item.Args) == 0 {
		return nil
	}
	argv := strs(op.Item.Args)
	p := c.proto[op.Client]
	// transactions: inside MULTI a command is only queued; a queued HELLO switches
	// the protocol when EXEC runs it, so the EXEC reply - emitted after the
	// switch - is in the protocol the connection speaks at that point
	switch cmd := strings.ToLower(argv[0]); {
	case cmd == "multi" && !c.inMulti[op.Client]:
		if op.Reply.K == KSimple {
			c.inMulti[op.Client] = true
			c.queued[op.Client] = nil
		}
	case c.inMulti[op.Client] && cmd == "discard":
		c.inMulti[op.Client] = false
	case c.inMulti[op.Client] && cmd == "exec":
		c.inMulti[op.Client] = false
		if op.Reply.K == KArray {
			q := c.queued[op.Client]
			if len(op.Reply.A) != len(q) {
				return &Violation{Oracle: "exec", Step: w.step, Fp: "exec:reply-count",
					Msg: fmt.Sprintf("client %d: EXEC of %d queued commands returned %d replies", op.Client, len(q), len(op.Reply.A))}
			}
			v := Value{K: KArray, A: append([]Value(nil), op.Reply.A...)}
			for i, qc := range q {
				if !qc.hello {
					continue
				}
				if qc.valid && qc.want != 0 && !op.Reply.A[i].IsErr() {
					if qc.want != c.proto[op.Client] {
						c.execSw++
					}
					c.proto[op.Client] = qc.want
				}
				if qc.valid && qc.lenient && op.Reply.A[i].IsErr() {
					v.A[i] = Value{K: KNil}
					continue
				}
				if qc.valid && op.Reply.A[i].IsErr() {
					return &Violation{Oracle: "hello", Step: w.step, Fp: "hello:refused-valid:exec",
						Msg: fmt.Sprintf("client %d: element %d of EXEC is the reply of a valid HELLO, got %s", op.Client, i, clipS(op.Reply.A[i].String(), 120))}
				}
				if !qc.valid && !op.Reply.A[i].IsErr() {
					return &Violation{Oracle: "hello", Step: w.step, Fp: "hello:accepted-invalid:exec",
						Msg: fmt.Sprintf("client %d: element %d of EXEC is the reply of a HELLO that should be refused, got %s", op.Client, i, clipS(op.Reply.A[i].String(), 120))}
				}
				v.A[i] = Value{K: KNil} // server info: names the connection, not comparable between twins
			}
			c.view[op] = v
		}
	case c.inMulti[op.Client]:
		if op.Reply.K == KSimple && op.Reply.S == "QUEUED" {
			qc := queuedCmd{}
			if cmd == "hello" {
				qc.hello = true
				qc.want, qc.valid = helloWants(argv, 0) // 0: no version given, the protocol stays
				qc.lenient = nonASCII(argv)
			}
			c.queued[op.Client] = append(c.queued[op.Client], qc)
		}
		if cmd == "hello" {
			return nil
		}
	}
	p = c.proto[op.Client]
	// (2) HELLO switches exactly this connection, and only when valid
	if strings.EqualFold(argv[0], "hello") {
		want, valid := helloWants(argv, p)
		if valid && nonASCII(argv) && op.Reply.IsErr() {
			// a name outside printable ASCII: Redis refuses it, an implementation
			// may accept it; the reply decides
			return nil
		}
		if !valid {
			if !op.Reply.IsErr() {
				return &Violation{Oracle: "hello", Step: w.step, Fp: "hello:accepted-invalid",
					Msg: fmt.Sprintf("client %d: %s should be refused, got %s", op.Client, fmtArgs(argv), clipS(op.Reply.String(), 120))}
			}
		} else {
			if op.Reply.IsErr() {
				return &Violation{Oracle: "hello", Step: w.step, Fp: "hello:refused-valid",
					Msg: fmt.Sprintf("client %d: %s was refused: %s", op.Client, fmtArgs(argv), op.Reply.String())}
			}
			wantKind := KArray
			if want == 3 {
				wantKind = KMap
			}
			if op.Reply.K != wantKind {
				return &Violation{Oracle: "hello", Step: w.step, Fp: "hello:reply-shape",
					Msg: fmt.Sprintf("client %d: %s should answer in protocol %d, got %s", op.Client, fmtArgs(argv), want, clipS(op.Reply.String(), 120))}
			}
			if want != p {
				c.hellos++
			}
			c.proto[op.Client] = want
		}
		return nil
	}
	p = c.proto[op.Client]
	// (1) under RESP2 only RESP2 types
	if p == 2 {
		if t := hasResp3Type(op.Reply); t != "" {
			return &Violation{Oracle: "resp2-types", Step: w.step, Fp: "resp2-types:" + strings.ToLower(argv[0]) + ":" + t,
				Msg: fmt.Sprintf("client %d speaks RESP2 but the reply to %s contains the RESP3 type %s: %q", op.Client, fmtArgs(argv), t, clip(op.Raw, 160))}
		}
	}
	if op.Client > 1 || op.Item.Tag == "pad" {
		return nil
	}
	// (3) twins: compare the i-th replies once both are there
	op.protoAt = p
	c.replies[op.Client] = append(c.replies[op.Client], op)
	i := len(c.replies[op.Client]) - 1
	other := 1 - op.Client
	if i >= len(c.replies[other]) {
		return nil
	}
	ra, rb := c.replies[0][i], c.replies[1][i]
	if ra.Item.Tag == "hello" || rb.Item.Tag == "hello" || ra.Item.Tag == "pad" || rb.Item.Tag == "pad" {
		return nil
	}
	return c.compare(w, ra, rb, i)
}

func (c *protoChecker) compare(w *World, ra, rb *Op, i int) *Violation {
	argv := strs(ra.Item.Args)
	if va, ok := c.view[ra]; ok {
		if vb, ok := c.view[rb]; ok && len(va.A) == len(vb.A) {
			// EXEC: element by element (the HELLO elements are blanked)
			pa, pb := ra.protoAt, rb.protoAt
			for j := range va.A {
				var ok bool
				switch {
				case pa == 2 && pb == 3:
					ok = sameInfo(va.A[j], vb.A[j])
				case pa == 3 && pb == 2:
					ok = sameInfo(vb.A[j], va.A[j])
				default:
					ok = looseEqual(va.A[j], vb.A[j])
				}
				if pa != pb && (hasResp3Type(va.A[j]) != "" || hasResp3Type(vb.A[j]) != "") {
					c.typed++
				}
				if !ok {
					return &Violation{Oracle: "twins", Step: w.step, Fp: "twins:exec:" + va.A[j].K.String() + "/" + vb.A[j].K.String(),
						Msg: fmt.Sprintf("command #%d EXEC on equal state, element %d: the RESP%d reply is not the down-conversion of the RESP%d reply:\n  RESP%d: %q\n  RESP%d: %q", i, j, min(pa, pb), max(pa, pb), pa, clip(ra.Raw, 300), pb, clip(rb.Raw, 300))}
				}
			}
			return nil
		}
	}
	if ra.Item.Tag == "exec-hello" && (ra.Reply.IsErr() || rb.Reply.IsErr()) {
		// the twins queued different HELLOs: one may have been refused while queueing
		return nil
	}
	if replyDependsOnChance(argv) && !strings.EqualFold(argv[0], "client") {
		// shape only: both errors or both not
		if ra.Reply.IsErr() != rb.Reply.IsErr() {
			return &Violation{Oracle: "twins", Step: w.step, Fp: "twins:" + strings.ToLower(argv[0]) + ":error-vs-value",
				Msg: fmt.Sprintf("%s: one protocol answered an error, the other a value: RESP%d %s / RESP%d %s", fmtArgs(argv), ra.protoAt, clipS(ra.Reply.String(), 80), rb.protoAt, clipS(rb.Reply.String(), 80))}
		}
		// ... and the same amount of information: what is drawn varies, how much
		// is drawn does not (|count| entries for a negative count, pairs with
		// WITHVALUES), so the flattened replies have equally many leaves
		if !ra.Reply.IsErr() && leafCount(ra.Reply) != leafCount(rb.Reply) {
			return &Violation{Oracle: "twins", Step: w.step, Fp: "twins:" + strings.ToLower(argv[0]) + ":leaf-count",
				Msg: fmt.Sprintf("%s on equal state: the RESP%d reply carries %d values, the RESP%d reply %d:\n  %q\n  %q", fmtArgs(argv), ra.protoAt, leafCount(ra.Reply), rb.protoAt, leafCount(rb.Reply), clip(ra.Raw, 200), clip(rb.Raw, 200))}
		}
		return nil
	}
	if strings.EqualFold(argv[0], "client") || strings.EqualFold(argv[0], "select") {
		return nil
	}
	pa, pb := c.protoAtReply(ra), c.protoAtReply(rb)
	var ok bool
	switch {
	case pa == 2 && pb == 3:
		ok = sameInfo(ra.Reply, rb.Reply)
	case pa == 3 && pb == 2:
		ok = sameInfo(rb.Reply, ra.Reply)
	case pa == 2 && pb == 2:
		ok = sameInfo(ra.Reply, ra.Reply) && (valuesEqual(ra.Reply, rb.Reply) || unorderedEqual(ra.Reply, rb.Reply, false) || unorderedEqual(ra.Reply, rb.Reply, true) || ra.Reply.IsErr() && rb.Reply.IsErr())
	default:
		ok = valuesEqual(down(ra.Reply), down(rb.Reply)) || unorderedEqual(down(ra.Reply), down(rb.Reply), false) || unorderedEqual(down(ra.Reply), down(rb.Reply), true)
	}
	if pa != pb && (hasResp3Type(ra.Reply) != "" || hasResp3Type(rb.Reply) != "") {
		c.typed++
	}
	if !ok {
		return &Violation{Oracle: "twins", Step: w.step, Fp: "twins:" + strings.ToLower(argv[0]) + ":" + ra.Reply.K.String() + "/" + rb.Reply.K.String(),
			Msg: fmt.Sprintf("command #%d %s on equal state: the RESP%d reply is not the down-conversion of the RESP%d reply:\n  RESP%d: %q\n  RESP%d: %q", i, fmtArgs(argv), min(pa, pb), max(pa, pb), pa, clip(ra.Raw, 200), pb, clip(rb.Raw, 200))}
	}
	return nil
}

func (c *protoChecker) protoAtReply(op *Op) int { return op.protoAt }

// looseEqual: two replies in the same protocol carry the same information
// (unordered where the reply may be a map or set in either protocol).
func looseEqual(a, b Value) bool {
	da, db := down(a), down(b)
	if valuesEqual(da, db) {
		return true
	}
	if da.IsErr() && db.IsErr() {
		return da.ErrClass() == db.ErrClass()
	}
	if da.K == KArray && db.K == KArray && len(da.A) == len(db.A) {
		if unorderedEqual(da, db, false) || unorderedEqual(da, db, true) {
			return true
		}
		for i := range da.A {
			if !looseEqual(a.A[i], b.A[i]) {
				return false
			}
		}
		return true
	}
	return false
}

func nonASCII(argv []string) bool {
	for _, a := range argv {
		for i := 0; i < len(a); i++ {
			if a[i] > 126 {
				return true
			}
		}
	}
	return false
}

// helloWants: the protocol a HELLO asks for (p when it names none) and whether
// the command is valid as a whole.
func helloWants(argv []string, p int) (want int, valid bool) {
	want, valid = p, true
	if len(argv) > 1 {
		switch argv[1] {
		case "2":
			want = 2
		case "3":
			want = 3
		default:
			valid = false
		}
	}
	if valid && len(argv) > 2 {
		// SETNAME with an invalid name is refused as a whole
		if len(argv) == 4 && strings.EqualFold(argv[2], "SETNAME") {
			if strings.ContainsAny(argv[3], " \n\r") {
				valid = false
			}
		} else {
			valid = false
		}
	}
	return
}

// leafCount: number of scalar values in a reply, aggregates flattened.
func leafCount(v Value) int {
	switch v.K {
	case KArray, KMap, KSet, KPush:
		n := 0
		for _, e := range v.A {
			n += leafCount(e)
		}
		return n
	}
	return 1
}

func (c *protoChecker) Final(w *World) *Violation { return nil }
