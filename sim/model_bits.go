package sim

import (
	"math/big"
	"strings"
)

// Bitmap commands on string values (Redis 7): SETBIT, GETBIT, BITCOUNT, BITPOS,
// BITFIELD, BITFIELD_RO. They are modelled because they are writes in place
// (C07: the deadline stays, C10: a watched key counts as modified, C06/C14: a
// key comes into being) - and then the replies are checked too.

const maxBitOffset = int64(4) * 1024 * 1024 * 1024 // 512 MiB of bits

func bitAt(b []byte, i int64) int {
	if i < 0 || i>>3 >= int64(len(b)) {
		return 0
	}
	return int(b[i>>3]>>(7-uint(i&7))) & 1
}

func setBitAt(b []byte, i int64, v int) {
	if v != 0 {
		b[i>>3] |= 1 << (7 - uint(i&7))
	} else {
		b[i>>3] &^= 1 << (7 - uint(i&7))
	}
}

// bitRange: Redis' conversion of a start/end pair (bytes or bits) to a range of
// bit indexes; ok=false for an empty range.
func bitRange(strlen int64, start, end int64, isBit bool) (from, to int64, ok bool) {
	tot := strlen
	if isBit {
		tot <<= 3
	}
	if start < 0 {
		start += tot
	}
	if end < 0 {
		end += tot
	}
	if start < 0 {
		start = 0
	}
	if end < 0 {
		end = 0
	}
	if end >= tot {
		end = tot - 1
	}
	if start > end {
		return 0, 0, false
	}
	if isBit {
		return start, end, true
	}
	return start * 8, end*8 + 7, true
}

type bfType struct {
	signed bool
	bits   int
}

func parseBfType(a string) (bfType, bool) {
	if len(a) < 2 || (a[0] != 'i' && a[0] != 'u' && a[0] != 'I' && a[0] != 'U') {
		return bfType{}, false
	}
	n, ok := parseInt(a[1:])
	if !ok {
		return bfType{}, false
	}
	signed := a[0] == 'i' || a[0] == 'I'
	if n < 1 || (signed && n > 64) || (!signed && n > 63) {
		return bfType{}, false
	}
	return bfType{signed, int(n)}, true
}

func parseBfOffset(a string, bits int) (int64, bool) {
	mult := int64(1)
	if strings.HasPrefix(a, "#") {
		a = a[1:]
		mult = int64(bits)
	}
	n, ok := parseInt(a)
	if !ok || n < 0 {
		return 0, false
	}
	if mult > 1 && n > maxBitOffset {
		return 0, false
	}
	n *= mult
	if n+int64(bits) > maxBitOffset {
		return 0, false
	}
	return n, true
}

func bfRead(b []byte, off int64, t bfType) *big.Int {
	v := new(big.Int)
	for i := 0; i < t.bits; i++ {
		v.Lsh(v, 1)
		if bitAt(b, off+int64(i)) == 1 {
			v.Or(v, big.NewInt(1))
		}
	}
	if t.signed && v.Bit(t.bits-1) == 1 {
		v.Sub(v, new(big.Int).Lsh(big.NewInt(1), uint(t.bits)))
	}
	return v
}

func bfWrite(b []byte, off int64, t bfType, v *big.Int) {
	// two's complement of v in t.bits bits
	mod := new(big.Int).Lsh(big.NewInt(1), uint(t.bits))
	u := new(big.Int).Mod(v, mod)
	for i := 0; i < t.bits; i++ {
		setBitAt(b, off+int64(i), int(u.Bit(t.bits-1-i)))
	}
}

func bfLimits(t bfType) (min, max *big.Int) {
	if t.signed {
		max = new(big.Int).Sub(new(big.Int).Lsh(big.NewInt(1), uint(t.bits-1)), big.NewInt(1))
		min = new(big.Int).Neg(new(big.Int).Add(max, big.NewInt(1)))
		return
	}
	return big.NewInt(0), new(big.Int).Sub(new(big.Int).Lsh(big.NewInt(1), uint(t.bits)), big.NewInt(1))
}

// bfFit: the value after the overflow policy; fail=true when the policy is FAIL
// and the value does not fit.
func bfFit(v *big.Int, t bfType, policy string) (res *big.Int, fail bool) {
	min, max := bfLimits(t)
	if v.Cmp(min) >= 0 && v.Cmp(max) <= 0 {
		return v, false
	}
	switch policy {
	case "FAIL":
		return nil, true
	case "SAT":
		if v.Cmp(max) > 0 {
			return max, false
		}
		return min, false
	}
	mod := new(big.Int).Lsh(big.NewInt(1), uint(t.bits))
	r := new(big.Int).Mod(new(big.Int).Sub(v, min), mod)
	return r.Add(r, min), false
}

type bfOp struct {
	op     string // GET SET INCRBY
	t      bfType
	off    int64
	val    int64
	policy string
}

func mBitfield(ro bool) func(m *Model, s *Sess, a []string, _ bool) Expect {
	return func(m *Model, s *Sess, a []string, _ bool) Expect {
		var ops []bfOp
		policy := "WRAP"
		write := false
		highest := int64(-1)
		for i := 2; i < len(a); {
			sub := upper(a[i])
			switch {
			case sub == "GET" && i+2 < len(a):
				t, ok := parseBfType(a[i+1])
				if !ok {
					return eArgErr()
				}
				off, ok := parseBfOffset(a[i+2], t.bits)
				if !ok {
					return eArgErr()
				}
				ops = append(ops, bfOp{op: "GET", t: t, off: off})
				i += 3
			case (sub == "SET" || sub == "INCRBY") && i+3 < len(a):
				t, ok := parseBfType(a[i+1])
				if !ok {
					return eArgErr()
				}
				off, ok := parseBfOffset(a[i+2], t.bits)
				if !ok {
					return eArgErr()
				}
				v, ok := parseInt(a[i+3])
				if !ok {
					return eArgErr()
				}
				ops = append(ops, bfOp{op: sub, t: t, off: off, val: v, policy: policy})
				write = true
				if h := off + int64(t.bits) - 1; h > highest {
					highest = h
				}
				i += 4
			case sub == "OVERFLOW" && i+1 < len(a):
				p := upper(a[i+1])
				if p != "WRAP" && p != "SAT" && p != "FAIL" {
					return eArgErr()
				}
				policy = p
				i += 2
			default:
				return eArgErr()
			}
		}
		if ro && write {
			return eArgErr()
		}
		o := m.get(s, a[1])
		if o != nil && o.T != tString {
			return eWrongType()
		}
		var b []byte
		if o != nil {
			b = []byte(o.S)
		}
		if write {
			for int64(len(b)) < highest>>3+1 {
				b = append(b, 0)
			}
		}
		var sub []Expect
		changed := false
		for _, op := range ops {
			old := bfRead(b, op.off, op.t)
			switch op.op {
			case "GET":
				sub = append(sub, eInt(old.Int64()))
			case "SET":
				v := big.NewInt(op.val)
				if !op.t.signed {
					v = new(big.Int).SetUint64(uint64(op.val))
				}
				nv, fail := bfFit(v, op.t, op.policy)
				if fail {
					sub = append(sub, eNil())
					continue
				}
				bfWrite(b, op.off, op.t, nv)
				changed = true
				sub = append(sub, eInt(old.Int64()))
			case "INCRBY":
				nv, fail := bfFit(new(big.Int).Add(old, big.NewInt(op.val)), op.t, op.policy)
				if fail {
					sub = append(sub, eNil())
					continue
				}
				bfWrite(b, op.off, op.t, nv)
				changed = true
				sub = append(sub, eInt(nv.Int64()))
			}
		}
		if write {
			if o == nil {
				m.set(s, a[1], &mObj{T: tString, S: string(b)})
			} else if changed || len(b) != len(o.S) {
				o.S = string(b)
				m.modified(s, a[1])
			}
		}
		float := o != nil && o.Float
		if float {
			// the exact digits of a float-valued string are not modelled
			return Expect{Mode: exAny}
		}
		return eArr(sub...)
	}
}

func init() {
	bitOffset := func(a string) (int64, bool) {
		n, ok := parseInt(a)
		if !ok || n < 0 || n >= maxBitOffset {
			return 0, false
		}
		return n, true
	}
	reg("setbit", 4, true, func(m *Model, s *Sess, a []string, _ bool) Expect {
		off, ok := bitOffset(a[2])
		if !ok {
			return eArgErr()
		}
		if a[3] != "0" && a[3] != "1" {
			return eArgErr()
		}
		o := m.get(s, a[1])
		if o != nil && o.T != tString {
			return eWrongType()
		}
		var b []byte
		if o != nil {
			b = []byte(o.S)
		}
		for int64(len(b)) < off>>3+1 {
			b = append(b, 0)
		}
		old := bitAt(b, off)
		setBitAt(b, off, int(a[3][0]-'0'))
		if o == nil {
			m.set(s, a[1], &mObj{T: tString, S: string(b)})
			return eInt(int64(old))
		}
		float := o.Float
		o.S = string(b)
		m.modified(s, a[1])
		if float {
			return Expect{Mode: exAny}
		}
		return eInt(int64(old))
	})
	reg("getbit", 3, false, func(m *Model, s *Sess, a []string, _ bool) Expect {
		off, ok := bitOffset(a[2])
		if !ok {
			return eArgErr()
		}
		o := m.get(s, a[1])
		if o == nil {
			return eInt(0)
		}
		if o.T != tString {
			return eWrongType()
		}
		if o.Float {
			return Expect{Mode: exAny}
		}
		return eInt(int64(bitAt([]byte(o.S), off)))
	})
	reg("bitcount", -2, false, func(m *Model, s *Sess, a []string, _ bool) Expect {
		o := m.get(s, a[1])
		bad := len(a) == 3 || len(a) > 5
		var start, end int64
		isBit := false
		if len(a) >= 4 {
			var ok1, ok2 bool
			start, ok1 = parseInt(a[2])
			end, ok2 = parseInt(a[3])
			if !ok1 || !ok2 {
				bad = true
			}
			if len(a) == 5 {
				switch upper(a[4]) {
				case "BIT":
					isBit = true
				case "BYTE":
				default:
					bad = true
				}
			}
		}
		if o == nil {
			if bad {
				// (Redis 7.0 answers 0 for a missing key before it looks at the
				// arguments, later versions complain first)
				return eAlt(eInt(0), eArgErr())
			}
			return eInt(0)
		}
		if bad {
			return eArgErr() // (any error: whether the type or the arguments are looked at first is not fixed)
		}
		if o.T != tString {
			return eWrongType()
		}
		if o.Float {
			return Expect{Mode: exAny}
		}
		b := []byte(o.S)
		from, to := int64(0), int64(len(b))*8-1
		if len(a) >= 4 {
			if start < 0 && end < 0 && start > end {
				return eInt(0)
			}
			var ok bool
			from, to, ok = bitRange(int64(len(b)), start, end, isBit)
			if !ok {
				return eInt(0)
			}
		}
		n := int64(0)
		for i := from; i <= to; i++ {
			n += int64(bitAt(b, i))
		}
		return eInt(n)
	})
	reg("bitpos", -3, false, func(m *Model, s *Sess, a []string, _ bool) Expect {
		if a[2] != "0" && a[2] != "1" {
			return eArgErr()
		}
		bit := int(a[2][0] - '0')
		bad := len(a) > 6
		var start, end int64
		endGiven, isBit := false, false
		if len(a) >= 4 {
			var ok bool
			if start, ok = parseInt(a[3]); !ok {
				bad = true
			}
			if len(a) >= 5 {
				if end, ok = parseInt(a[4]); !ok {
					bad = true
				}
				endGiven = true
			}
			if len(a) == 6 {
				switch upper(a[5]) {
				case "BIT":
					isBit = true
				case "BYTE":
				default:
					bad = true
				}
			}
		}
		o := m.get(s, a[1])
		if o == nil {
			exp := eInt(0)
			if bit == 1 {
				exp = eInt(-1)
			}
			if bad {
				return eAlt(exp, eArgErr())
			}
			return exp
		}
		if bad {
			return eArgErr()
		}
		if o.T != tString {
			return eWrongType()
		}
		if o.Float {
			return Expect{Mode: exAny}
		}
		b := []byte(o.S)
		strlen := int64(len(b))
		if len(a) == 3 {
			start, end = 0, strlen-1
		} else if !endGiven {
			end = strlen - 1
			if isBit {
				end = strlen<<3 + 7
			}
		}
		var from, to int64
		if len(a) == 3 {
			if strlen == 0 {
				return eInt(-1)
			}
			from, to = 0, strlen*8-1
		} else {
			var ok bool
			from, to, ok = bitRange(strlen, start, end, isBit)
			if !ok {
				return eInt(-1)
			}
		}
		for i := from; i <= to; i++ {
			if bitAt(b, i) == bit {
				return eInt(i)
			}
		}
		if bit == 0 && !endGiven {
			// the string is followed by zeros as far as a search without an end is concerned
			return eInt((to>>3 + 1) * 8)
		}
		return eInt(-1)
	})
	reg("bitfield", -2, true, mBitfield(false))
	reg("bitfield_ro", -2, false, mBitfield(true))
}
