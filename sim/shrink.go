package sim

import (
	"testing"
	"time"
)

// shrinkReplay minimises a failing (plan, tape) while the violation keeps the
// same fingerprint: drop clients, drop script items (delta debugging), switch
// off fault knobs, truncate the tape and zero its entries ("0" always means
// the first alternative: keep running the lowest-named enabled task, deliver
// whole frames, no clock jump).
// runFn executes one candidate and reports what happened.
type runFn func(p *Plan, tape []uint32) (viol *Violation, usedTape []uint32, turnLog []int)

func inProcessRunner(t *testing.T, pd *propDef) runFn {
	return func(p *Plan, tape []uint32) (*Violation, []uint32, []int) {
		res := runProp(t, pd, p, replayTape(tape), false)
		return res.Viol, res.Tape, res.TurnLog
	}
}

func shrinkReplay(t *testing.T, pd *propDef, rf *ReplayFile, budget int, run runFn) (*ReplayFile, int) {
	fp := rf.Viol.Fp
	best := &ReplayFile{Property: rf.Property, Seed: rf.Seed, Plan: rf.Plan.clone(), Tape: append([]uint32(nil), rf.Tape...), Viol: rf.Viol}
	runs := 0
	deadline := time.Now().Add(90 * time.Second)
	try := func(p *Plan, tape []uint32) bool {
		if runs >= budget || time.Now().After(deadline) {
			return false
		}
		runs++
		viol, used, _ := run(p, tape)
		if viol != nil && viol.Fp == fp {
			best = &ReplayFile{Property: rf.Property, Seed: rf.Seed, Plan: p, Tape: used, Viol: viol}
			return true
		}
		return false
	}
	// pin the order in which the scripts advanced, so that dropping an item
	// does not reshuffle everything after it
	{
		viol, _, turnLog := run(best.Plan, best.Tape)
		runs++
		if viol != nil && viol.Fp == fp && len(best.Plan.Knobs.Order) == 0 {
			p := best.Plan.clone()
			p.Knobs.Order = append([]int(nil), turnLog...)
			try(p, best.Tape)
		}
	}
	for pass := 0; pass < 3 && runs < budget; pass++ {
		progress := false
		// knobs
		for _, k := range []string{"frag", "short", "adv", "sticky"} {
			p := best.Plan.clone()
			switch k {
			case "frag":
				if !p.Knobs.Frag {
					continue
				}
				p.Knobs.Frag = false
			case "short":
				if !p.Knobs.ShortReads {
					continue
				}
				p.Knobs.ShortReads = false
			case "adv":
				if p.Knobs.RandAdv == 0 {
					continue
				}
				p.Knobs.RandAdv = 0
			case "sticky":
				if p.Knobs.Sticky == 100 {
					continue
				}
				p.Knobs.Sticky = 100
			}
			if try(p, best.Tape) {
				progress = true
			}
		}
		// empty tape, then shorter tapes
		if len(best.Tape) > 0 {
			if try(best.Plan, nil) {
				progress = true
			} else {
				for n := len(best.Tape) / 2; n > 0 && runs < budget; n /= 2 {
					if len(best.Tape) > n && try(best.Plan, best.Tape[:len(best.Tape)-n]) {
						progress = true
					}
				}
			}
		}
		// whole clients
		for ci := len(best.Plan.Clients) - 1; ci >= 0 && len(best.Plan.Clients) > 1; ci-- {
			if ci >= len(best.Plan.Clients) {
				continue
			}
			p := best.Plan.clone()
			// removing a client shifts indexes used by await-blocked; keep it simple: blank its script
			if len(p.Clients[ci].Items) == 0 {
				continue
			}
			p.Knobs.Order = dropTurns(p.Knobs.Order, ci, 0, len(p.Clients[ci].Items))
			p.Clients[ci].Items = nil
			if try(p, best.Tape) {
				progress = true
			}
		}
		// script items, delta debugging per client
		for ci := range best.Plan.Clients {
			n := len(best.Plan.Clients[ci].Items)
			for chunk := (n + 1) / 2; chunk >= 1 && runs < budget; chunk /= 2 {
				for start := 0; start < len(best.Plan.Clients[ci].Items) && runs < budget; {
					items := best.Plan.Clients[ci].Items
					end := start + chunk
					if end > len(items) {
						end = len(items)
					}
					p := best.Plan.clone()
					p.Clients[ci].Items = append(append([]Item(nil), items[:start]...), items[end:]...)
					p.Knobs.Order = dropTurns(p.Knobs.Order, ci, start, end)
					if try(p, best.Tape) {
						progress = true
					} else {
						start += chunk
					}
				}
				if chunk == 1 {
					break
				}
			}
		}
		// zero tape entries in chunks
		for chunk := len(best.Tape) / 2; chunk >= 1 && runs < budget; chunk /= 2 {
			for start := 0; start < len(best.Tape) && runs < budget; start += chunk {
				tp := append([]uint32(nil), best.Tape...)
				changed := false
				for i := start; i < start+chunk && i < len(tp); i++ {
					if tp[i] != 0 {
						tp[i] = 0
						changed = true
					}
				}
				if changed && try(best.Plan, tp) {
					progress = true
				}
			}
			if chunk == 1 {
				break
			}
		}
		if !progress {
			break
		}
	}
	return best, runs
}

// dropTurns removes from a pinned order the turns that consumed items
// [start,end) of client ci.
func dropTurns(order []int, ci, start, end int) []int {
	if len(order) == 0 {
		return order
	}
	out := make([]int, 0, len(order))
	k := 0
	for _, c := range order {
		if c == ci {
			if k >= start && k < end {
				k++
				continue
			}
			k++
		}
		out = append(out, c)
	}
	return out
}
