package sim

func init() {
	seqRule := "one generated single-connection history per run, replies and full stored state compared with the reference model after every command; non-trivial = at least 10 commands were answered, keys of at least 2 types existed and at least one command met a key of another type or an expired-but-stored key; distinct = distinct (seed-independent) hash of the command-name sequence and scheduler event sequence"
	for _, id := range []string{"C02", "C03", "C04", "C05", "C06", "C07"} {
		id := id
		regProp(&propDef{
			id:   id,
			gen:  func(seed uint64, th bool) *Plan { return genSeqPlan(id, seed, th) },
			chk:  newSeqChecker,
			rule: seqRule,
			nontrivial: func(res *RunResult) bool {
				return res.Stats.Replies >= 10 && res.Extra["types"] >= 2 && (res.Extra["wrongtype"] > 0 || res.Stats.ExpiredSeen > 0)
			},
			quickRuns:       2400,
			thoroughRuns:    150000,
			quickSeconds:    60,
			thoroughSeconds: 900,
			level:           "exploration",
			explanation:     "Sequential histories: the schedule dimension is degenerate (one command in flight), so what the simulator contributes is the exact clock (lazy-expiry phases reached by moving simulated time), EXEC-wrapped execution of every command (re-entrant lock path), request fragmentation and short reads on the way in, seeded math/rand, and the reference model shared with the concurrent checks.",
			assumptions: []string{
				"the reference model (sim/model_*.go) states Redis 7 semantics correctly for the inputs the generators produce; inputs whose Redis behaviour is version-specific or undocumented are not generated (DESIGN.md 10)",
				"error replies are compared by class (first word), not by wording; argument-validation errors by 'is an error'",
				"deadlines are compared with 1 ms tolerance, TTL-style replies with +-1 unit; whole-second EXAT deadlines may sit anywhere inside that second",
				"floating point results are compared numerically (relative 1e-15)",
				"SimDumpDb/SimCheckInvariants (verif-tagged code in /repo) report the stored state faithfully",
			},
		})
	}
}
