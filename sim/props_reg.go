package sim

func init() {
	regProp(&propDef{
		id:     "C01",
		gen:    func(seed uint64, th bool) *Plan { return genFramePlan(seed, th) },
		chk:    newFrameChecker,
		runner: runFrameTwin,
		rule:   "twin runs of one plan: 1-3 pipelined connections (depth 1-8) on disjoint key spaces send 1-40 commands of all families with binary arguments (empty, CR, LF, CRLF, NUL, non-UTF-8, RESP look-alikes, values around 8 KiB and above 64 KiB, unknown commands and error-provoking arguments containing CRLF); once as whole commands with depth 1, once cut into tape-chosen fragments (incl. 1-byte pieces), coalesced into shared segments, with short reads and clock jumps; class all-offsets cuts one frame at every byte offset; oracles: every reply parses as exactly one RESP value in order with nothing left over, replies equal the per-connection reference model (binary read-back), and the reply bytes of the two runs are identical; non-trivial = at least one request was reassembled from several reads or shared a segment with another; distinct = distinct scheduler event sequence; a client that has delivered a complete command plus the start of the next may keep the rest back until every completely delivered command is answered (fault held-until-reply: the reply to a complete command must not wait for more input); 1 in 3 connections sends one request of exactly 1024..65536 bytes in one piece with nothing outstanding before and nothing sent after it until its reply is there; requests with 200..1500 elements, the empty value and COPY of it",
		nontrivial: func(res *RunResult) bool {
			return res.Extra["reassembled"] >= 1
		},
		quickRuns:       2500,
		thoroughRuns:    150000,
		quickSeconds:    60,
		thoroughSeconds: 900,
		level:           "exploration",
		explanation:     "The all-offsets class enumerates every split offset of one frame (and some two-cut variants); that sub-space is complete per run, the space of frames is sampled.",
		assumptions: []string{
			"replies that legitimately vary between runs (random members, TTLs, CLIENT/INFO text) are excluded from the byte comparison and checked by shape",
			"one connection's commands touch only its own key prefix, so per-connection sequential semantics apply although connections run concurrently",
		},
	})
	regProp(&propDef{
		id:   "C13",
		gen:  func(seed uint64, th bool) *Plan { return genHostilePlan(seed, th) },
		chk:  newHostileChecker,
		rule: "1-2 attacker connections and 1-2 well-behaved victim connections (own key prefix, refined against the model) run concurrently; attackers send either raw hostile bytes (blank lines, bare CR/LF, every RESP3 type as top-level value or argument, aggregates as map keys/set members, declared lengths -2^63, -5, 2^48, 2^63-1 for every length-carrying type, streamed aggregates, truncated frames followed by close, byte-level mutations of valid frames) or well-formed commands (every command name x 0-6 arguments from pools of extreme integers/floats, keywords and keys of every type, plus targeted shapes: offsets/counts/ranges at +-2^63 and 2^62, BITFIELD types, RESTORE payloads, COMMAND GETKEYS with disagreeing numkeys, SCAN cursors/counts); oracles: no emulator goroutine panics and the worker process survives, every well-formed non-blocking command is answered exactly once, the victims' replies equal the model and arrive; non-trivial = hostile well-formed commands were answered or garbage reached the parser while a victim was being served; distinct = distinct scheduler event sequence; further targeted shapes: HRANDFIELD/SRANDMEMBER/SPOP counts of +-2^31, 2^62, 2^63-1 on keys of the right type, and line breaks in every argument an error message may quote back",
		nontrivial: func(res *RunResult) bool {
			return res.Extra["hostile-answered"]+res.Extra["garbage-sent"] >= 1
		},
		quickRuns:       3000,
		thoroughRuns:    200000,
		quickSeconds:    60,
		thoroughSeconds: 900,
		level:           "exploration",
		crashy:          true,
		explanation:     "Panics in emulator goroutines are recovered by the verif-only simRecover hook and reported as violations with the panicking frame as fingerprint; what cannot be recovered (fatal runtime errors, os.Exit) kills the worker, which the driver attributes to the run in flight (its plan is written to disk before the run starts) and confirms by replaying it in a fresh process.",
		assumptions: []string{
			"declared lengths between 2^20 and 2^48 are not generated: whether a 16 GiB allocation succeeds depends on the host, which the property does not fix",
			"attackers do not touch the victims' keys and do not issue commands that legitimately change what victims see (FLUSH*, CLIENT KILL of other ids)",
		},
	})
	regProp(&propDef{
		id:   "C20",
		gen:  func(seed uint64, th bool) *Plan { return genLifePlan(seed, th) },
		chk:  newLifeChecker,
		rule: "1-3 start/stop cycles of an emulator on one port, optionally with a second instance on another port in the same process; before each termination 1-4 clients are brought into different states (idle, request half delivered, inside MULTI with a queue, blocked with timeout 0, not reading large replies, busy pipeline); the termination (Close, or RequestTermination then WaitForTermination) is issued from an admin task at a tape-chosen moment; afterwards every old connection sends further commands, a newcomer tries to connect, a successor is created and started on the same port and a fresh client inspects it; oracles: every lifecycle call returns, nothing sent after termination returned is served, connects are refused while nothing listens, the port binds again at once, the successor is empty and lists only its own connection, the second instance's clients are never closed or starved, see only their own connections and their replies refine their model; non-trivial = a termination happened while at least one client was mid-frame, in MULTI, blocked or not reading; distinct = distinct scheduler event sequence; with two instances, a client of the first may issue CLIENT KILL naming a connection of the second (by id or LADDR); further rules: no command goroutine of a connection takes a step after the termination of its emulator has returned (goroutine starts are schedule points, hook H9), and every connection made before that moment is closed on the server side at the end of the run (connections still in the listener backlog are reset)",
		nontrivial: func(res *RunResult) bool {
			return res.Extra["after-close-attempts"] >= 1 && res.Extra["successor-empty"] >= 1
		},
		quickRuns:       2000,
		thoroughRuns:    100000,
		quickSeconds:    75,
		thoroughSeconds: 900,
		level:           "exploration",
		explanation:     "Several emulator instances live in one synctest bubble; the listener is the simulator's port table (binding a bound port fails, Close frees it).",
		assumptions: []string{
			"the simulated listener models the kernel's port table without TIME_WAIT effects",
			"'bounded time' for Close is read as: the call returns before the run's step budget and idle-time cap are exhausted while all runnable goroutines are being scheduled",
		},
	})
	regProp(&propDef{
		id:   "C19",
		gen:  func(seed uint64, th bool) *Plan { return genPersistPlan(seed, th) },
		chk:  newPersistChecker,
		rule: "an emulator with a persist path; one connection runs a history over databases 0-2 biased to in-place mutators (LSET, LINSERT, LTRIM, SREM, SMOVE, HDEL, EXPIRE, PERSIST, GETEX, SETRANGE), deletions, empty strings and FLUSHDB/FLUSHALL, with the periodic saver running between phases (clock moved 1.1 s, then quiescence); class restart: clean Close (or RequestTermination+WaitForTermination), a new emulator on the same path, the same connection carries on and an observer reads every key of every database; replies and the full stored state (values, order, deadlines) must equal the model, which knows nothing about the restart; class crash: at a chosen stage of a chosen snapshot write the directory is copied as the crash image, plus torn variants (the file in flight cut at 0, 1, half, all-but-one bytes, or at every length when it is short; temp file lost), an emulator is started on each image and each database must equal its previous or its new snapshot; non-trivial = the restart was verified after at least one in-place mutation or deletion, or at least one crash image was checked; distinct = distinct scheduler event sequence; key pools include the empty name, binary names and names with line breaks; one periodic save in four is left under way while the next commands arrive; lone writes after the last completed save include writes that only replace a value (HSET of an existing field, HINCRBY(FLOAT), SETRANGE, SETBIT); the emulator restarted on the first crash image lives on: a SET over a connection, a clean stop, another start, the key must be there",
		nontrivial: func(res *RunResult) bool {
			return res.Extra["crash-images-checked"] >= 1 || (res.Stats.Faults["emu-new"] >= 1 && res.Stats.Replies >= 8)
		},
		quickRuns:       1500,
		thoroughRuns:    100000,
		quickSeconds:    75,
		thoroughSeconds: 900,
		level:           "fault_enumeration",
		explanation:     "Crash points: the stage callback (verif hook H5) fires after create, after the header, after each key, before close and after the rename; per run one (save, stage) pair is chosen by the seed and the prefix truncations of the file in flight are enumerated for it (all lengths when the file is at most 64 bytes, else 0/1/half/all-but-one). Real files in a per-run temp directory; the 'crash' is a copy of the directory taken inside the callback, i.e. while the writer is stopped at that stage.",
		assumptions: []string{
			"a crash leaves some prefix of the file being written and every completed rename; files not being written are intact (no sector-level corruption of old data)",
			"the saver is given time to finish before the next command (await-idle), so the model snapshot taken at 'created' is the state the snapshot must contain",
		},
	})
	regProp(&propDef{
		id:   "C17",
		gen:  func(seed uint64, th bool) *Plan { return genScanPlan(seed, th) },
		chk:  newScanChecker,
		rule: "a scanner connection runs 1-3 full iterations (SCAN / HSCAN / SSCAN; COUNT 1,2,3,10,1000; MATCH from a small glob grammar; TYPE) on a collection of 0-600 elements while 0-2 mutator connections insert bursts of new elements, delete bursts (so the one-item-per-bucket table doubles and halves) and re-add elements between the scanner's calls, the tape deciding the interleaving; the model (exact, turn-taking) gives for each iteration the elements present at every step and those present at some step; oracle: always-present and matching => returned; returned => present at some step and matching; the iteration ends; non-trivial = an iteration completed during which the table was resized or elements were added/removed; distinct = distinct scheduler event sequence; patterns with ! classes; keys of every type that are gone but still stored (passed deadline, UNLINK) before a SCAN with TYPE; mutators that empty the whole collection or database in mid-iteration (the iteration must still end); every single call is also checked against a per-call SCAN/HSCAN/SSCAN model",
		nontrivial: func(res *RunResult) bool {
			return res.Extra["iterations-completed"] >= 1 && (res.Extra["rehash-during-iteration"] >= 1 || res.Stats.Replies > 20)
		},
		needProbes:      []string{"rehash-during-iteration"},
		quickRuns:       1500,
		thoroughRuns:    100000,
		quickSeconds:    75,
		thoroughSeconds: 900,
		level:           "exploration",
		explanation:     "Cursor values are opaque to the oracle. The interleaving is at command granularity (the guarantee SCAN gives is about changes between calls); atomicity of a single SCAN call against concurrent writers is C08/C16 territory.",
		assumptions:     []string{"the reference model tracks the collection exactly because commands take turns", "termination: a full iteration must end within 4000 calls (collections have at most ~2000 elements, tables at most 4096 buckets)"},
	})
	regProp(&propDef{
		id:   "C16",
		gen:  func(seed uint64, th bool) *Plan { return genRacePlan(seed, th) },
		chk:  newRaceChecker,
		race: true,
		rule: "2-5 connections run data commands, transactions, WATCH, blocking commands, introspection (CLIENT LIST/INFO/ID/GETNAME/SETNAME, INFO, DBSIZE, COMMAND COUNT/LIST), SELECT, HELLO, CLIENT UNBLOCK, FLUSHDB, reconnects and closes, half of the runs with a persist path (periodic saver) and a terminate/wait at the end; the emulator is built with -race and driven by the same seeded scheduler; a violation is a race report whose two access stacks both lie in emulator code and were not reached through the verif-only inspection helpers; non-trivial = at least 2 connections executed commands and at least one introspection, lifecycle or saver event happened; distinct = distinct scheduler event sequence",
		nontrivial: func(res *RunResult) bool {
			return res.Stats.Replies >= 4
		},
		quickRuns:       4000,
		thoroughRuns:    100000,
		quickSeconds:    75,
		thoroughSeconds: 900,
		level:           "exploration",
		explanation:     "The race detector is happens-before based: a pair is reported whenever both accesses occur in a run and no synchronisation of the program orders them. The simulator's own hand-offs are invisible to it (park/release run under runtime.RaceDisable, scheduler state lives in //go:norace code), so serialising the goroutines does not hide races; a self-test (bin/check selftest-race) plants an unsynchronised global and requires a report.",
		assumptions: []string{
			"Go race detector semantics (dynamic happens-before, bounded shadow history)",
			"race reports that involve verif-only inspection code (sim_inspect.go) or only harness frames are not counted",
		},
	})
	regProp(&propDef{
		id:   "C15",
		gen:  func(seed uint64, th bool) *Plan { return genProtoPlan(seed, th) },
		chk:  newProtoChecker,
		rule: "twin connections A (RESP2) and B (RESP3) run the same 10-50 commands of all families on two databases with equal state, taking turns; HELLO (2, 3, unsupported versions, garbage, SETNAME) is issued at tape-chosen positions on A, B or a bystander; oracles: down(RESP3 reply) equals the RESP2 reply (unordered for map/set), a RESP2 connection never receives a RESP3 type, HELLO changes exactly the issuing connection and only when valid; non-trivial = at least one compared reply pair contained a RESP3-only type; distinct = distinct scheduler event sequence; 1 in 10 positions carries a transaction on both twins with 1-4 commands of typed replies (maps, sets, doubles) and a queued HELLO: the protocol switches when EXEC runs it, so the EXEC reply must be in the protocol the connection speaks by then, and the twins' EXEC replies are compared element by element",
		nontrivial: func(res *RunResult) bool {
			return res.Extra["resp3-typed-compared"] >= 1
		},
		quickRuns:       2500,
		thoroughRuns:    150000,
		quickSeconds:    60,
		thoroughSeconds: 900,
		level:           "exploration",
		explanation:     "Relational oracle (no model needed): the two protocols are compared against each other on equal state; the schedule dimension only decides when HELLO lands.",
		assumptions: []string{
			"down-conversion as listed by the property: map -> flat key/value array, set -> array, double/big number/verbatim -> bulk string (verbatim without its 3-letter format prefix), boolean -> 0/1, null -> nil; HRANDFIELD WITHVALUES may nest pairs under RESP3",
			"replies that vary by chance are compared by shape only",
		},
	})
	for _, id := range []string{"C09", "C10"} {
		id := id
		regProp(&propDef{
			id: id,
			gen: func(seed uint64, th bool) *Plan {
				if seed%5 < 2 {
					return genConcTxPlan(id, seed, th)
				}
				return genTxPlan(id, seed, th)
			},
			chk: func(p *Plan) Checker {
				if p.Class == "conc" {
					return newLinChecker(p)
				}
				return newSeqChecker(p)
			},
			rule: "class turns (3 of 5 runs): 1-3 connections run transaction programs (WATCH/UNWATCH, MULTI, queued commands incl. failing, rejected and blocking ones, nested MULTI, WATCH inside MULTI, EXEC/DISCARD with and without MULTI, follow-up commands) taking turns at command granularity as the tape decides; every reply and the stored state are compared with the model's session automaton and per-key modification counters; non-trivial = an EXEC with a non-empty queue was answered and (C10) a watched key was written or expired between WATCH and EXEC; class conc (2 of 5 runs): 2-3 connections run WATCH / MULTI / queued read-modify-write commands / EXEC and plain commands on 2-3 shared keys truly concurrently (every emulator goroutine scheduled from the tape at each lock boundary and store primitive), and the history with EXEC as one operation plus a final read-back is checked for linearizability against the model with porcupine; non-trivial = commands of different connections overlapped, an EXEC was answered and porcupine decided; distinct = distinct scheduler event sequence; in 1 of 4 concurrent runs one connection is killed by another (CLIENT KILL ID) at a tape-chosen point of its program, also in the middle of its EXEC, whose lost reply makes it a pending operation: all of the queue took effect or none; schedules: uniform walk, stall-one-task (Knobs.Stall) and PCT priorities (Knobs.PCT)",
			nontrivial: func(res *RunResult) bool {
				if res.Plan != nil && res.Plan.Class == "conc" {
					return res.Extra["overlaps"] >= 1 && res.Extra["porcupine-ok"] == 1 && res.Extra["exec-answered"] >= 1
				}
				if id == "C10" {
					return res.Extra["exec-nonempty"] >= 1 && res.Extra["watched-touched"] >= 1
				}
				return res.Extra["exec-nonempty"] >= 1
			},
			quickRuns:       4000,
			thoroughRuns:    300000,
			quickSeconds:    60,
			thoroughSeconds: 900,
			level:           "exploration",
			explanation:     "Turn-taking histories over several connections: the tape decides whose command runs next, so every position of a modification relative to WATCH/MULTI/EXEC of another connection is reachable, while the model stays an exact oracle. Atomicity of EXEC against truly concurrent commands and EXECs is the conc class: invoke/return are scheduler steps and EXEC is a single operation of the sequential model (session automaton with queue and watch versions in the porcupine state).",
			assumptions: []string{
				"the reference model's transaction automaton follows the Redis 7 documentation (queue-time rejection => EXECABORT; runtime errors stay in place; WATCH inside MULTI and nested MULTI are errors that keep the transaction)",
				"a command with unusable arguments inside MULTI may be answered QUEUED (Redis) or rejected at once (argument validation before queueing); the observed reply decides which continuation the model follows",
			},
		})
	}
	regProp(&propDef{
		id:   "C11",
		gen:  func(seed uint64, th bool) *Plan { return genBlockPlan(seed, th) },
		chk:  newBlockChecker,
		rule: "2-4 blocking consumers (any of the five commands, 1-2 keys), 1-3 producers (pushes of 1-3 unique elements, LMOVE, pushes inside EXEC), 0-2 competing non-blocking consumers, every emulator goroutine scheduled from the tape through the block/wake protocol points; oracles: linearizability of the whole history incl. final read-back (conservation, exactly-once, order), no client left blocked on a non-empty list at quiescence, and in the FIFO class (waiters registered in a known order, one pusher) the i-th pushed element completes the i-th waiter; non-trivial = a blocking command was served after having blocked, or a woken waiter found its list empty; distinct = distinct scheduler event sequence",
		nontrivial: func(res *RunResult) bool {
			return res.Stats.Probes["blocked-then-served"] > 0 || res.Stats.Probes["block.retry-failed"] > 0
		},
		needProbes:      []string{"blocked-then-served"},
		quickRuns:       5000,
		thoroughRuns:    400000,
		quickSeconds:    60,
		thoroughSeconds: 900,
		level:           "exploration",
		explanation:     "The six schedule points of the block/wake loop (before register, after register, before capture, before wait, after wake, after failed retry) are hook sites, so the tape can park a waiter at any of them while producers and competitors run.",
		assumptions: []string{
			"blocking pops are specified as: pop at a single instant in [invoke, return] at which data was available; a null reply requires an instant at which every key was empty",
			"the FIFO class relies on await-blocked (the dispatch goroutine of the previous waiter sits in its select) to fix the registration order",
		},
	})
	regProp(&propDef{
		id:   "C12",
		gen:  func(seed uint64, th bool) *Plan { return genEndPlan(seed, th) },
		chk:  newEndChecker,
		rule: "classes: timeout (all five blocking commands, timeouts 0.001..10 s and 0, clock moved to just before and just past the deadline, repeated on one connection), unblock (CLIENT UNBLOCK id [TIMEOUT|ERROR] on a client known to sit in its blocking select, then on the same client while idle, on an unknown id, with a blocked bystander), close (blocked client closes, is reset or is CLIENT KILLed, then pushes, optionally a live consumer), race (UNBLOCK, CLIENT INFO/LIST, pushes, timers and clock jumps at tape-chosen moments); oracles on simulated time, replies, conservation of pushed elements, follow-up commands, bystanders, and the simulator's livelock/deadlock detection; non-trivial = a timeout was verified against the simulated clock, or an unblock/close/kill hit a client inside the block/wake protocol; distinct = distinct scheduler event sequence; class multi (1 run in 9): 1-4 blocking commands of all five kinds queued in MULTI on empty lists with timeouts 0, 0.01, 1 - EXEC must answer at once, every later command of the connection and of a bystander is answered",
		nontrivial: func(res *RunResult) bool {
			e := res.Extra
			return e["timeouts-exact"]+e["timeout0-waited"]+e["unblocked"]+e["conserved"]+e["race-unblock-ones"] > 0
		},
		quickRuns:       5000,
		thoroughRuns:    300000,
		quickSeconds:    60,
		thoroughSeconds: 900,
		level:           "exploration",
		explanation:     "Timeouts are checked against the simulated clock exactly: the clock only moves when the simulator moves it, so 'not earlier than t' and 'done once the clock passed t' are assertions, not tolerances.",
		assumptions: []string{
			"'promptly after t' is read as: once the simulator has moved the clock past the deadline by delta and let every runnable goroutine finish, the reply must be there",
			"in the race class only consistency is demanded (an UNBLOCKED error requires a CLIENT UNBLOCK that answered 1), never a particular winner",
		},
	})
	regProp(&propDef{
		id: "C14",
		gen: func(seed uint64, th bool) *Plan {
			if seed%5 == 4 {
				return genConcPlan("C14", seed, th) // class twodb
			}
			return genDbPlan(seed, th)
		},
		chk: func(p *Plan) Checker {
			if p.Class == "twodb" {
				return newLinChecker(p)
			}
			return newSeqChecker(p)
		},
		rule: "2-4 connections (some opened late, some reconnecting) SELECT among databases 0,1,2,15 and invalid indexes, run data commands, transactions, FLUSHDB/FLUSHALL, DBSIZE, KEYS, CLIENT SETNAME/GETNAME, taking turns as the tape decides; after each command the reply and the stored state of all 16 databases are compared with the model; at the end every connection writes a marker into its selected database and an observer reads every database; non-trivial = a flush was issued while another connection had the flushed database selected, and at least 2 databases held keys; class twodb (1 of 5 runs): 3-4 connections work truly concurrently in database 0 and in one other database that does not exist yet (several of them SELECT it at the same moment), with transactions and FLUSHALL/FLUSHDB in between, checked for linearizability incl. a read-back of both databases; non-trivial = overlapping commands and porcupine decided; distinct = distinct scheduler event sequence; variant latedb of class twodb (1 in 3): the other database does not exist at the start, one or two connections create it in mid-run (SELECT, write there, SELECT 0, write here) while the others issue FLUSHALL; FLUSHDB/FLUSHALL ASYNC|SYNC are issued too, and goroutines the emulator starts without announcing them are scheduled like the others (fault unannounced-goroutine-scheduled)",
		nontrivial: func(res *RunResult) bool {
			if res.Plan != nil && res.Plan.Class == "twodb" {
				return res.Extra["overlaps"] >= 1 && res.Extra["porcupine-ok"] == 1
			}
			return res.Extra["flush-with-others"] >= 1 && res.Extra["dbs-used"] >= 2
		},
		quickRuns:       3000,
		thoroughRuns:    200000,
		quickSeconds:    60,
		thoroughSeconds: 900,
		level:           "exploration",
		explanation:     "Turn-taking multi-connection histories with per-connection sessions in the model; flushes while other connections are inside MULTI or hold WATCHes are included, flushes while others are blocked are part of C11/C12's concurrent workloads.",
		assumptions: []string{
			"the reference model's per-connection session (selected database, name, MULTI queue, watches) follows the Redis 7 documentation",
			"SELECT queued inside MULTI follows Redis: it is answered QUEUED and takes effect at its place in the queue when EXEC runs (the emulator used to bind every queued command to the database selected while queueing; repaired)",
		},
	})
	regProp(&propDef{
		id:   "C08",
		gen:  func(seed uint64, th bool) *Plan { return genConcPlan("C08", seed, th) },
		chk:  newLinChecker,
		rule: "2-4 connections issue 3-12 read-modify-write / multi-key commands each on 2-4 shared keys, every emulator goroutine is scheduled from the tape at each lock boundary and store primitive; the recorded history plus a final read-back of every key is checked for linearizability against the reference model with porcupine; non-trivial = at least 2 commands of different connections overlapped in [invoke, return] and named a common key, and porcupine decided (ok); distinct = distinct scheduler event sequence; KEYS, MSET/DEL/UNLINK of arbitrary keys, and (1 in 4 single-database runs) an all-or-nothing group of three names created and removed as a whole (MSET/MSETNX/DEL) and looked at as a whole (KEYS, EXISTS, MGET, DBSIZE); schedules: uniform walk, stall-one-task with rare-site bias, PCT priorities, and in half of the runs a schedule point after every unlock",
		nontrivial: func(res *RunResult) bool {
			return res.Extra["overlaps"] >= 1 && res.Extra["porcupine-ok"] == 1
		},
		quickRuns:       6000,
		thoroughRuns:    400000,
		quickSeconds:    60,
		thoroughSeconds: 900,
		level:           "exploration",
		explanation:     "Concurrent histories: which emulator goroutine advances at each lock boundary, store primitive and channel wake-up is chosen from the seeded tape; invoke/return are scheduler step numbers, so no two events tie. porcupine Unknown (timeout) is counted as inconclusive, never as pass or violation.",
		assumptions: []string{
			"the reference model states Redis 7 semantics for the generated commands (no time-dependent commands except far deadlines)",
			"interleavings are explored at hook sites (lock boundaries, store primitives, wake-ups); unsynchronised access between hook sites is C16's job",
			"invoke = step at which the first request byte was handed to the transport (deliberately early), return = step at which the last reply byte was written",
		},
	})
	seqRule := "one generated single-connection history per run, replies and full stored state compared with the reference model after every command; non-trivial = at least 10 commands were answered, keys of at least 2 types existed and at least one command met a key of another type or an expired-but-stored key; in 1 of 3 runs every command is wrapped in MULTI/EXEC, in 1 of 5 of those with the clock moved between queueing and EXEC; the hash and set families include single-call HSCAN/SSCAN with MATCH; C06 and C07 histories include the bitmap commands (SETBIT, GETBIT, BITCOUNT, BITPOS, BITFIELD, BITFIELD_RO, BITOP), which are writes in place and modelled bit-exactly; distinct = distinct (seed-independent) hash of the command-name sequence and scheduler event sequence"
	for _, id := range []string{"C02", "C03", "C04", "C05", "C06", "C07"} {
		id := id
		regProp(&propDef{
			id:   id,
			gen:  func(seed uint64, th bool) *Plan { return genSeqPlan(id, seed, th) },
			chk:  newSeqChecker,
			rule: seqRule,
			nontrivial: func(res *RunResult) bool {
				return res.Stats.Replies >= 10 && res.Extra["types"] >= 2 && (res.Extra["wrongtype"] > 0 || res.Stats.ExpiredSeen > 0)
			},
			quickRuns:       2400,
			thoroughRuns:    150000,
			quickSeconds:    60,
			thoroughSeconds: 900,
			level:           "exploration",
			explanation:     "Sequential histories: the schedule dimension is degenerate (one command in flight), so what the simulator contributes is the exact clock (lazy-expiry phases reached by moving simulated time), EXEC-wrapped execution of every command (re-entrant lock path), request fragmentation and short reads on the way in, seeded math/rand, and the reference model shared with the concurrent checks.",
			assumptions: []string{
				"the reference model (sim/model_*.go) states Redis 7 semantics correctly for the inputs the generators produce; inputs whose Redis behaviour is version-specific or undocumented are not generated (DESIGN.md 10)",
				"error replies are compared by class (first word), not by wording; argument-validation errors by 'is an error'",
				"deadlines are compared with 1 ms tolerance, TTL-style replies with +-1 unit; whole-second EXAT deadlines may sit anywhere inside that second",
				"floating point results are compared numerically (relative 1e-15)",
				"SimDumpDb/SimCheckInvariants (verif-tagged code in /repo) report the stored state faithfully",
			},
		})
	}
}
