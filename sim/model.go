package sim

// Reference model: a small sequential Redis 7 written from the Redis command
// documentation. It shares no code and no constants with /repo. Replies are
// RESP2-shaped (the RESP3 side of C15 is checked relationally, not by model).

import (
	"fmt"
	"math"
	"sort"
	"strconv"
	"strings"
)

type mType uint8

const (
	tNone mType = iota
	tString
	tList
	tHash
	tSet
)

func (t mType) String() string {
	return [...]string{"none", "string", "list", "hash", "set"}[t]
}

type mObj struct {
	T   mType
	S   string
	L   []string
	H   map[string]string
	Z   map[string]struct{}
	Exp int64 // absolute deadline in unix nanoseconds; 0 = no expiry
	// Slack: the deadline was given in whole seconds (EXAT): an implementation
	// may place it anywhere in [Exp, Exp+Slack] - the clock granularity of that
	// unit. The checker adopts the implementation's choice (check_seq.go).
	Slack int64
	Float bool            // S was produced by float arithmetic: compare numerically
	HF    map[string]bool // hash fields produced by float arithmetic
}

func (o *mObj) clone() *mObj {
	c := &mObj{T: o.T, S: o.S, Exp: o.Exp, Float: o.Float, Slack: o.Slack}
	if o.L != nil {
		c.L = append([]string(nil), o.L...)
	}
	if o.H != nil {
		c.H = make(map[string]string, len(o.H))
		for k, v := range o.H {
			c.H[k] = v
		}
	}
	if o.HF != nil {
		c.HF = make(map[string]bool, len(o.HF))
		for k, v := range o.HF {
			c.HF[k] = v
		}
	}
	if o.Z != nil {
		c.Z = make(map[string]struct{}, len(o.Z))
		for k := range o.Z {
			c.Z[k] = struct{}{}
		}
	}
	return c
}

type wkey struct {
	db  int
	key string
}

// Model is the state of one emulator instance.
type Model struct {
	dbs [16]map[string]*mObj
	ver map[wkey]uint64 // modification counter per (db,key); survives deletion
	now int64           // unix ns of the command being applied
	// abaTolerant models the open known finding KF-watch-aba-missing-key: a
	// WATCH on a missing key does not notice the key having been created and
	// removed again. Only used to attribute an illegal history to that finding.
	abaTolerant bool
}

func NewModel() *Model {
	m := &Model{ver: map[wkey]uint64{}}
	for i := range m.dbs {
		m.dbs[i] = map[string]*mObj{}
	}
	return m
}

func (m *Model) Clone() *Model {
	c := &Model{ver: make(map[wkey]uint64, len(m.ver)), now: m.now, abaTolerant: m.abaTolerant}
	for k, v := range m.ver {
		c.ver[k] = v
	}
	for i := range m.dbs {
		c.dbs[i] = make(map[string]*mObj, len(m.dbs[i]))
		for k, o := range m.dbs[i] {
			c.dbs[i][k] = o.clone()
		}
	}
	return c
}

// Sess is the per-connection state.
type Sess struct {
	DB        int
	Proto     int
	Name      string
	InMulti   bool
	Dirty     bool // a command was rejected while queueing
	Queue     [][]string
	Watch     map[wkey]uint64
	WatchMiss map[wkey]bool // the key did not exist when it was first watched
}

func NewSess() *Sess {
	return &Sess{Proto: 2, Watch: map[wkey]uint64{}, WatchMiss: map[wkey]bool{}}
}

func (s *Sess) Clone() *Sess {
	c := *s
	c.Queue = append([][]string(nil), s.Queue...)
	c.Watch = make(map[wkey]uint64, len(s.Watch))
	for k, v := range s.Watch {
		c.Watch[k] = v
	}
	c.WatchMiss = make(map[wkey]bool, len(s.WatchMiss))
	for k, v := range s.WatchMiss {
		c.WatchMiss[k] = v
	}
	return &c
}

func (s *Sess) resetTx() {
	s.InMulti, s.Dirty, s.Queue = false, false, nil
	s.Watch = map[wkey]uint64{}
	s.WatchMiss = map[wkey]bool{}
}

// ---------------------------------------------------------------- expectations

type exMode uint8

const (
	exExact     exMode = iota // V, compared structurally
	exUnordered               // V is an array compared as a multiset
	exPairs                   // V is a flat field/value array compared as a mapping
	exErr                     // an error reply of class Class
	exPred                    // Pred decides
	exArray                   // an array whose elements match Sub one by one
	exFloat                   // bulk string holding a number equal to F within tolerance
	exAny                     // anything (commands the model does not predict)
	exIntNear                 // integer within Tol of V.I
	exAlt                     // any of Sub matches
)

type Expect struct {
	Mode  exMode
	V     Value
	Class string
	Pred  func(got Value) error
	Sub   []Expect
	F     float64
	Tol   int64
	Note  string
	// Resolve, when set, is called with the observed reply after a successful
	// match; it finishes a state change that legitimately depends on which of
	// several allowed replies the implementation gave.
	Resolve func(got Value)
}

func eInt(i int64) Expect          { return Expect{V: Value{K: KInt, I: i}} }
func eBulk(s string) Expect        { return Expect{V: Value{K: KBulk, S: s}} }
func eSimple(s string) Expect      { return Expect{V: Value{K: KSimple, S: s}} }
func eNil() Expect                 { return Expect{V: Value{K: KNil}} }
func eOK() Expect                  { return eSimple("OK") }
func eErr(class string) Expect     { return Expect{Mode: exErr, Class: class} }
func eWrongType() Expect           { return eErr("WRONGTYPE") }
func eFloat(f float64) Expect      { return Expect{Mode: exFloat, F: f} }
func eIntNear(i, tol int64) Expect { return Expect{Mode: exIntNear, V: Value{K: KInt, I: i}, Tol: tol} }
func eBulkArr(ss []string) Expect {
	v := Value{K: KArray, A: make([]Value, len(ss))}
	for i, s := range ss {
		v.A[i] = Value{K: KBulk, S: s}
	}
	return Expect{V: v}
}
func eUnordered(ss []string) Expect {
	e := eBulkArr(ss)
	e.Mode = exUnordered
	return e
}
func ePred(note string, f func(got Value) error) Expect {
	return Expect{Mode: exPred, Pred: f, Note: note}
}
func eArr(sub ...Expect) Expect { return Expect{Mode: exArray, Sub: sub} }
func eAlt(sub ...Expect) Expect { return Expect{Mode: exAlt, Sub: sub} }

// eArgErr: an argument is unusable (not a number, bad keyword); which error
// class wins when the key is also of the wrong type is not specified here.
func eArgErr() Expect { return eErr("*") }

func (e Expect) IsErr() bool { return e.Mode == exErr }

func (e Expect) String() string {
	switch e.Mode {
	case exExact:
		return e.V.String()
	case exUnordered:
		return "unordered" + e.V.String()
	case exPairs:
		return "pairs" + e.V.String()
	case exErr:
		return "error(" + e.Class + ")"
	case exPred:
		return "pred(" + e.Note + ")"
	case exArray:
		parts := make([]string, len(e.Sub))
		for i, s := range e.Sub {
			parts[i] = s.String()
		}
		return "[" + strings.Join(parts, ", ") + "]"
	case exFloat:
		return fmt.Sprintf("float(%v)", e.F)
	case exAlt:
		parts := make([]string, len(e.Sub))
		for i, s := range e.Sub {
			parts[i] = s.String()
		}
		return "one of {" + strings.Join(parts, " | ") + "}"
	case exAny:
		return "any"
	case exIntNear:
		return fmt.Sprintf("int(%d±%d)", e.V.I, e.Tol)
	}
	return "?"
}

func valuesEqual(a, b Value) bool {
	if a.K != b.K {
		return false
	}
	switch a.K {
	case KNil:
		return true
	case KInt, KBool:
		return a.I == b.I
	case KBulk, KSimple, KErr, KBigNum, KVerbatim, KBulkErr:
		return a.S == b.S
	case KDouble:
		return a.F == b.F || (math.IsNaN(a.F) && math.IsNaN(b.F))
	}
	if len(a.A) != len(b.A) {
		return false
	}
	for i := range a.A {
		if !valuesEqual(a.A[i], b.A[i]) {
			return false
		}
	}
	return true
}

func canon(v Value) string { return v.String() }

// Match reports why got does not satisfy the expectation, or nil.
func (e Expect) Match(got Value) error {
	switch e.Mode {
	case exAny:
		return nil
	case exExact:
		if !valuesEqual(e.V, got) {
			return fmt.Errorf("expected %s, got %s", e.V.String(), got.String())
		}
		return nil
	case exErr:
		if !got.IsErr() {
			return fmt.Errorf("expected an error reply (%s), got %s", e.Class, got.String())
		}
		if e.Class != "" && e.Class != "*" && got.ErrClass() != e.Class {
			return fmt.Errorf("expected error class %s, got %s", e.Class, got.String())
		}
		return nil
	case exUnordered:
		if got.K != KArray && got.K != KSet {
			return fmt.Errorf("expected %s, got %s", e.String(), got.String())
		}
		if len(got.A) != len(e.V.A) {
			return fmt.Errorf("expected %d elements %s, got %d: %s", len(e.V.A), e.String(), len(got.A), got.String())
		}
		a := make([]string, len(got.A))
		b := make([]string, len(got.A))
		for i := range got.A {
			a[i], b[i] = canon(got.A[i]), canon(e.V.A[i])
		}
		sort.Strings(a)
		sort.Strings(b)
		for i := range a {
			if a[i] != b[i] {
				return fmt.Errorf("expected (any order) %s, got %s", e.V.String(), got.String())
			}
		}
		return nil
	case exPairs:
		if got.K != KArray && got.K != KMap {
			return fmt.Errorf("expected %s, got %s", e.String(), got.String())
		}
		if len(got.A) != len(e.V.A) || len(got.A)%2 != 0 {
			return fmt.Errorf("expected %d pair elements %s, got %d: %s", len(e.V.A), e.String(), len(got.A), got.String())
		}
		a := make([]string, 0, len(got.A)/2)
		b := make([]string, 0, len(got.A)/2)
		for i := 0; i+1 < len(got.A); i += 2 {
			a = append(a, canon(got.A[i])+"\x00"+canon(got.A[i+1]))
			b = append(b, canon(e.V.A[i])+"\x00"+canon(e.V.A[i+1]))
		}
		sort.Strings(a)
		sort.Strings(b)
		for i := range a {
			if a[i] != b[i] {
				return fmt.Errorf("expected (pairs, any order) %s, got %s", e.V.String(), got.String())
			}
		}
		return nil
	case exPred:
		if err := e.Pred(got); err != nil {
			return fmt.Errorf("%s: %w (got %s)", e.Note, err, got.String())
		}
		return nil
	case exArray:
		if got.K != KArray {
			return fmt.Errorf("expected an array of %d, got %s", len(e.Sub), got.String())
		}
		if len(got.A) != len(e.Sub) {
			return fmt.Errorf("expected an array of %d %s, got %d: %s", len(e.Sub), e.String(), len(got.A), got.String())
		}
		for i := range e.Sub {
			if err := e.Sub[i].Match(got.A[i]); err != nil {
				return fmt.Errorf("element %d: %w", i, err)
			}
		}
		return nil
	case exAlt:
		var first error
		for _, a := range e.Sub {
			err := a.Match(got)
			if err == nil {
				return nil
			}
			if first == nil {
				first = err
			}
		}
		return fmt.Errorf("expected %s, got %s", e.String(), got.String())
	case exFloat:
		if got.K != KBulk && got.K != KDouble && got.K != KSimple {
			return fmt.Errorf("expected a number %v, got %s", e.F, got.String())
		}
		f := got.F
		if got.K == KBulk || got.K == KSimple {
			var err error
			f, err = strconv.ParseFloat(got.S, 64)
			if err != nil {
				return fmt.Errorf("expected a number %v, got %s", e.F, got.String())
			}
			if expNotation(got.S) {
				// INCRBYFLOAT / HINCRBYFLOAT: "an integer number followed (if needed) by
				// a dot, and a variable number of digits", never an exponent
				return fmt.Errorf("expected the number %v in fixed notation, got %s", e.F, got.String())
			}
		}
		if !floatNear(f, e.F) {
			return fmt.Errorf("expected number %v, got %v", e.F, f)
		}
		return nil
	case exIntNear:
		if got.K != KInt {
			return fmt.Errorf("expected integer near %d, got %s", e.V.I, got.String())
		}
		d := got.I - e.V.I
		if d < -e.Tol || d > e.Tol {
			return fmt.Errorf("expected integer %d (±%d), got %d", e.V.I, e.Tol, got.I)
		}
		return nil
	}
	return fmt.Errorf("bad expectation")
}

func floatNear(a, b float64) bool {
	if a == b {
		return true
	}
	d := math.Abs(a - b)
	m := math.Max(math.Abs(a), math.Abs(b))
	return d <= 1e-15*m || d < 1e-300
}

// ---------------------------------------------------------------- helpers

func (m *Model) db(s *Sess) map[string]*mObj { return m.dbs[s.DB] }

func (m *Model) touchVer(db int, key string) { m.ver[wkey{db, key}]++ }

// purge removes every key whose deadline has passed (strictly) at m.now.
func (m *Model) purge() {
	for i := range m.dbs {
		for k, o := range m.dbs[i] {
			if o.Exp != 0 && m.now > o.Exp+o.Slack {
				delete(m.dbs[i], k)
				m.touchVer(i, k)
			}
		}
	}
}

func (m *Model) get(s *Sess, key string) *mObj { return m.dbs[s.DB][key] }

func (m *Model) set(s *Sess, key string, o *mObj) {
	m.dbs[s.DB][key] = o
	m.touchVer(s.DB, key)
}

func (m *Model) del(s *Sess, key string) bool {
	if _, ok := m.dbs[s.DB][key]; ok {
		delete(m.dbs[s.DB], key)
		m.touchVer(s.DB, key)
		return true
	}
	return false
}

// modified: the object of key was changed in place.
func (m *Model) modified(s *Sess, key string) { m.touchVer(s.DB, key) }

// parseInt: Redis string2ll - canonical decimal only.
func parseInt(a string) (int64, bool) {
	if a == "" || len(a) > 20 {
		return 0, false
	}
	i, err := strconv.ParseInt(a, 10, 64)
	if err != nil {
		return 0, false
	}
	if strconv.FormatInt(i, 10) != a {
		return 0, false
	}
	return i, true
}

func parseFloat(a string) (float64, bool) {
	if a == "" || strings.ContainsAny(a, " \t\n\r\x00") {
		return 0, false
	}
	f, err := strconv.ParseFloat(a, 64)
	if err != nil {
		if ne, ok := err.(*strconv.NumError); ok && ne.Err == strconv.ErrRange {
			return f, true
		}
		return 0, false
	}
	return f, true
}

func upper(s string) string { return strings.ToUpper(s) }

// expNotation: a decimal number written with an exponent.
func expNotation(s string) bool {
	return strings.ContainsAny(s, "eE") && !strings.ContainsAny(s, "nN")
}

func sortedKeys[V any](m map[string]V) []string {
	out := make([]string, 0, len(m))
	for k := range m {
		out = append(out, k)
	}
	sort.Strings(out)
	return out
}

const errERR = "ERR"

// Apply executes one command of connection s at time now (unix ns).
func (m *Model) Apply(s *Sess, now int64, argv []string) Expect {
	m.now = now
	m.purge()
	if len(argv) == 0 {
		return eErr(errERR)
	}
	name := strings.ToLower(argv[0])
	if s.InMulti {
		switch name {
		case "exec", "discard", "multi", "watch":
		default:
			if err := queueCheck(name, argv); err != nil {
				s.Dirty = true
				return *err
			}
			// A command whose arguments are unusable (bad keyword, non-numeric
			// operand) is queued by Redis and fails inside EXEC; an
			// implementation that validates arguments before queueing rejects
			// it at once, which the property counts as "rejected while
			// queueing". Both are accepted; the observed reply decides.
			dry := m.Clone()
			ds := s.Clone()
			ds.InMulti = false
			if r := dry.exec1(ds, name, argv, true); isArgErrish(r) {
				e := eAlt(eSimple("QUEUED"), eArgErr())
				e.Resolve = func(got Value) {
					if got.IsErr() {
						s.Dirty = true
					} else {
						s.Queue = append(s.Queue, argv)
					}
				}
				return e
			}
			s.Queue = append(s.Queue, argv)
			return eSimple("QUEUED")
		}
	} else if err := queueCheck(name, argv); err != nil {
		return *err
	}
	r := m.exec1(s, name, argv, false)
	m.purge() // a deadline set in the past takes effect at once
	return r
}

func isArgErrish(e Expect) bool {
	if e.Mode == exErr && e.Class == "*" {
		return true
	}
	if e.Mode == exAlt {
		for _, s := range e.Sub {
			if isArgErrish(s) {
				return true
			}
		}
	}
	return false
}

// queueCheck: rejections that happen before a command is executed or queued.
func queueCheck(name string, argv []string) *Expect {
	sp, ok := cmdTable[name]
	if !ok {
		e := eErr(errERR)
		return &e
	}
	n := len(argv)
	if (sp.arity > 0 && n != sp.arity) || (sp.arity < 0 && n < -sp.arity) {
		e := eErr(errERR)
		return &e
	}
	return nil
}

type cmdSpecM struct {
	arity int // Redis convention: positive exact, negative minimum (incl. the name)
	fn    func(m *Model, s *Sess, a []string, inExec bool) Expect
	write bool
}

var cmdTable map[string]cmdSpecM

func reg(name string, arity int, write bool, fn func(m *Model, s *Sess, a []string, inExec bool) Expect) {
	if cmdTable == nil {
		cmdTable = map[string]cmdSpecM{}
	}
	cmdTable[name] = cmdSpecM{arity: arity, fn: fn, write: write}
}

func (m *Model) exec1(s *Sess, name string, argv []string, inExec bool) Expect {
	sp := cmdTable[name]
	return sp.fn(m, s, argv, inExec)
}

// ModelKnows reports whether the model implements the command.
func ModelKnows(name string) bool {
	_, ok := cmdTable[strings.ToLower(name)]
	return ok
}

// sessQueue: queue length probe used by coverage counters (s is the live
// session; before is the model clone taken before the command).
func (m *Model) sessQueue(s *Sess) [][]string { return s.Queue }
