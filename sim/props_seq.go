package sim

import (
	"strconv"
	"strings"
	"time"

	redisemu "github.com/jimsnab/go-redisemu"
)

func itoa(i int) string { return strconv.Itoa(i) }

// simEpochNs: unix nanoseconds of the simulated clock when a run starts
// (bubble start 2000-01-01 plus the 10000 days the engine sleeps first).
var simEpochNs = time.Date(2000, 1, 1, 0, 0, 0, 0, time.UTC).Add(10000 * 24 * time.Hour).UnixNano()

// genSeqPlan builds a single-connection history for the data-type properties.
func genSeqPlan(prop string, seed uint64, thorough bool) *Plan {
	g := newGen(seed, 1)
	p := &Plan{Prop: prop, Seed: seed, Knobs: Knobs{Turns: true, Dump: true, RandSeed: int64(seed)}}
	p.Knobs.Frag = g.chance(2)
	p.Knobs.ShortReads = g.chance(3)
	p.Knobs.Sticky = 60
	p.Knobs.MaxSteps = 60000
	n := 5 + g.r.IntN(56)
	if thorough {
		n = 10 + g.r.IntN(120)
		g.big = g.chance(3)
	} else {
		g.big = g.chance(6)
	}
	wrap := g.chance(3) // run every command in a MULTI/EXEC singleton
	now := simEpochNs
	var items []Item
	add := func(argv []string) {
		if wrap && !isTxCmd(argv[0]) {
			items = append(items, cmdItem("MULTI"), Item{Args: bs(argv...)})
			if g.chance(5) {
				// time passes between queueing and EXEC: a queued command takes
				// effect, and reads the clock, when EXEC runs it
				d := []int64{int64(150 * time.Millisecond), int64(1200 * time.Millisecond), int64(2500 * time.Millisecond), int64(101 * time.Second)}[g.r.IntN(4)]
				items = append(items, Item{Op: "adv", N: d})
				now += d
			}
			items = append(items, cmdItem("EXEC"))
		} else {
			items = append(items, Item{Args: bs(argv...)})
		}
	}
	adv := func(d int64) {
		items = append(items, Item{Op: "adv", N: d})
		now += d
	}
	// family weights per property
	type fam struct {
		name string
		w    int
	}
	var fams []fam
	switch prop {
	case "C02":
		fams = []fam{{"string", 12}, {"key", 2}, {"expire", 2}, {"list", 1}, {"hash", 1}, {"set", 1}}
	case "C03":
		fams = []fam{{"list", 12}, {"key", 2}, {"expire", 1}, {"string", 1}, {"hash", 1}, {"set", 1}}
	case "C04":
		fams = []fam{{"hash", 12}, {"key", 2}, {"expire", 1}, {"string", 1}, {"list", 1}, {"set", 1}}
	case "C05":
		fams = []fam{{"set", 12}, {"key", 2}, {"expire", 1}, {"string", 1}, {"list", 1}, {"hash", 1}}
	case "C06":
		fams = []fam{{"key", 8}, {"string", 3}, {"list", 3}, {"hash", 3}, {"set", 3}, {"expire", 2}, {"bits", 1}}
	case "C07":
		fams = []fam{{"expire", 8}, {"string", 3}, {"list", 2}, {"hash", 2}, {"set", 2}, {"key", 3}, {"bits", 2}}
	default:
		fams = []fam{{"key", 2}, {"string", 3}, {"list", 3}, {"hash", 3}, {"set", 3}, {"expire", 2}}
	}
	total := 0
	for _, f := range fams {
		total += f.w
	}
	pickFam := func() string {
		x := g.r.IntN(total)
		for _, f := range fams {
			if x < f.w {
				return f.name
			}
			x -= f.w
		}
		return fams[0].name
	}
	if seed%10 == 9 && (prop == "C04" || prop == "C05" || prop == "C06") {
		// class churn: one big collection (hash fields / set members / keys) is
		// built, mostly removed and then churned, so that the emulator's
		// one-item-per-bucket table grows and halves several times; the state
		// comparison after every command notices a lost or phantom item at once
		p.Class = "churn"
		p.Knobs.MaxSteps = 400000
		wrap = false
		name := func(i int) string { return "e" + itoa(i) }
		mk := func(from, to int, del bool) []string {
			var a []string
			switch prop {
			case "C04":
				a = []string{"HSET", "big"}
				if del {
					a = []string{"HDEL", "big"}
				}
			case "C05":
				a = []string{"SADD", "big"}
				if del {
					a = []string{"SREM", "big"}
				}
			default:
				a = []string{"MSET"}
				if del {
					a = []string{"DEL"}
				}
			}
			for j := from; j < to; j++ {
				a = append(a, name(j))
				if !del && prop != "C05" {
					a = append(a, "v"+itoa(j))
				}
			}
			return a
		}
		read := func() []string {
			switch prop {
			case "C04":
				return [][]string{{"HLEN", "big"}, {"HKEYS", "big"}, {"HGETALL", "big"}, {"HEXISTS", "big", name(g.r.IntN(8))}, {"HVALS", "big"}}[g.r.IntN(5)]
			case "C05":
				// (set algebra walks the big set's table, also while it is being shrunk)
				return [][]string{{"SCARD", "big"}, {"SMEMBERS", "big"}, {"SISMEMBER", "big", name(g.r.IntN(8))},
					{"SINTER", "big", "other"}, {"SINTERSTORE", "dst", "big", "other"}, {"SDIFF", "big", "other"}, {"SUNION", "other", "big"}, {"SINTERCARD", "2", "big", "other"}}[g.r.IntN(8)]
			}
			return [][]string{{"DBSIZE"}, {"KEYS", "*"}, {"EXISTS", name(g.r.IntN(8))}, {"RANDOMKEY"}}[g.r.IntN(4)]
		}
		if g.chance(3) {
			// variant lastpair: two stable names that share a bucket in every
			// table smaller than S, so that they end up in the two buckets of
			// the last sibling pair of a table of size S (white-box guidance from
			// SimBucketIndex); then churn of one other name. The table must
			// not be halved while both are there.
			p.Class = "churn-lastpair"
			S := []int{32, 64, 128}[g.r.IntN(3)]
			pair := []string{}
			for want := S - 2; want < S; want++ {
				for i := g.r.IntN(1000); i < 200000; i++ {
					n := "p" + itoa(i)
					if redisemu.SimBucketIndex(n, S) == want {
						pair = append(pair, n)
						break
					}
				}
			}
			temp := ""
			for i := 0; i < 200000 && temp == ""; i++ {
				n := "t" + itoa(i)
				if b := redisemu.SimBucketIndex(n, S); b < S-2 && b%2 == 0 {
					temp = n
				}
			}
			one := func(verb string, names ...string) []string {
				a := []string{verb}
				if prop != "C06" {
					a = append(a, "big")
				}
				for _, n := range names {
					a = append(a, n)
					if verb == "HSET" || verb == "MSET" {
						a = append(a, "v")
					}
				}
				return a
			}
			addv, remv := "MSET", "DEL"
			if prop == "C04" {
				addv, remv = "HSET", "HDEL"
			} else if prop == "C05" {
				addv, remv = "SADD", "SREM"
			}
			add(one(addv, pair...))
			for i := 0; i < S+4+g.r.IntN(S); i++ {
				add(one(addv, temp))
				add(one(remv, temp))
				if g.chance(10) {
					add(read())
				}
			}
			add(read())
			p.Clients = []Client{{Items: items}}
			return p
		}
		keep := 3 + g.r.IntN(8)
		size := keep + []int{10, 20, 40}[g.r.IntN(3)]
		if prop == "C05" {
			add([]string{"SADD", "other", name(0), name(2), name(4), name(size), name(size + 1), "zz"})
		}
		for i := 0; i < size; i += 20 {
			add(mk(i, min(i+20, size), false))
		}
		add(read())
		for i := keep; i < size; i += 20 {
			add(mk(i, min(i+20, size), true))
		}
		cycles := 150 + g.r.IntN(500)
		for i := 0; i < cycles; i++ {
			add(mk(size, size+2, false))
			add(mk(size, size+2, true))
			if g.chance(12) {
				add(read())
			}
		}
		add(read())
		n = 5 + g.r.IntN(10)
	}
	for i := 0; i < n; i++ {
		// state-shaping prefix
		if g.chance(3) {
			add(g.shape())
			if g.chance(3) {
				k := g.key()
				if g.chance(2) {
					add([]string{"PEXPIRE", k, "100"})
				} else {
					add([]string{"EXPIRE", k, "2"})
				}
			}
		}
		if (prop == "C07" || prop == "C03") && g.chance(12) {
			// a collection of one element with a deadline, changed in place in a
			// way that empties it for an instant (rotation onto itself, move of
			// the only member and back, overwrite of the only field)
			k := g.key()
			add([]string{"DEL", k})
			switch g.r.IntN(3) {
			case 0:
				add([]string{"RPUSH", k, g.val()})
				add([]string{"PEXPIRE", k, "100000"})
				add(g.pick2([][]string{{"LMOVE", k, k, "LEFT", "RIGHT"}, {"RPOPLPUSH", k, k}, {"LMOVE", k, k, "RIGHT", "RIGHT"}, {"LSET", k, "0", "x"}, {"LINSERT", k, "BEFORE", "nosuch", "y"}}))
			case 1:
				add([]string{"SADD", k, "m1"})
				add([]string{"PEXPIRE", k, "100000"})
				add(g.pick2([][]string{{"SMOVE", k, k, "m1"}, {"SADD", k, "m1"}, {"SPOP", k, "0"}}))
			default:
				add([]string{"HSET", k, "f1", "1"})
				add([]string{"PEXPIRE", k, "100000"})
				add(g.pick2([][]string{{"HSET", k, "f1", "2"}, {"HINCRBY", k, "f1", "1"}, {"HINCRBYFLOAT", k, "f1", "0.5"}, {"HSETNX", k, "f1", "3"}}))
			}
			add([]string{"PTTL", k})
		}
		if prop == "C07" && g.chance(2) || g.chance(8) {
			// move the clock: a little, or across typical deadlines
			switch g.r.IntN(6) {
			case 0:
				adv(int64(98 * time.Millisecond))
			case 1:
				adv(int64(102 * time.Millisecond))
			case 2:
				adv(int64(1998 * time.Millisecond))
			case 3:
				adv(int64(2002 * time.Millisecond))
			case 4:
				adv(int64(g.r.IntN(300)+1) * int64(time.Second))
			default:
				adv(int64(g.r.IntN(5000)+1) * int64(time.Millisecond))
			}
		}
		switch pickFam() {
		case "string":
			add(g.stringCmd(now))
		case "list":
			add(g.listCmd())
		case "hash":
			add(g.hashCmd())
		case "set":
			add(g.setCmd())
		case "key":
			add(g.keyCmd())
		case "expire":
			add(g.expireCmd(now))
		case "bits":
			add(g.bitCmd())
		}
	}
	p.Clients = []Client{{Items: items}}
	return p
}

func isTxCmd(name string) bool {
	switch strings.ToLower(name) {
	case "multi", "exec", "discard", "watch", "unwatch":
		return true
	}
	return false
}
