package sim

import (
	"encoding/json"
	"math/rand/v2"
)

// A Plan is everything a simulated run does that is decided before the run
// starts; together with a Tape (the scheduler's choices) it determines the run.
type Plan struct {
	Prop    string   `json:"prop"`
	Seed    uint64   `json:"seed"`
	Class   string   `json:"class,omitempty"` // run class within the property
	Clients []Client `json:"clients"`
	Knobs   Knobs    `json:"knobs"`
	Note    string   `json:"note,omitempty"`
	N1      int64    `json:"n1,omitempty"` // property-specific plan parameters
	N2      int64    `json:"n2,omitempty"`
}

type Knobs struct {
	Turns      bool  `json:"turns,omitempty"`      // at most one command in flight over all clients
	Frag       bool  `json:"frag,omitempty"`       // request bytes are cut into tape-chosen fragments
	ShortReads bool  `json:"shortReads,omitempty"` // server reads return tape-chosen short counts
	RandAdv    int   `json:"randAdv,omitempty"`    // 1-in-N steps offer a random clock advance (0 = never)
	MaxSteps   int   `json:"maxSteps,omitempty"`
	RandSeed   int64 `json:"randSeed,omitempty"` // seed for the emulator's math/rand
	Persist    bool  `json:"persist,omitempty"`  // emulator 0 gets a persist path
	NoAutoEmu  bool  `json:"noAutoEmu,omitempty"`
	Sticky     int   `json:"sticky,omitempty"` // bias (0..100 %) towards continuing the task that ran last
	// Stall: 1-in-n chance per step that one runnable task is set aside for a
	// tape-chosen number of steps (a slow node: everybody else keeps running; it
	// comes back early only when nothing else can move)
	Stall int `json:"stall,omitempty"`
	// UnlockYield: every unlock is followed by a schedule point
	UnlockYield bool `json:"unlockYield,omitempty"`
	// PCT: priority schedule of depth d (Burckhardt et al., "A randomized scheduler
	// with probabilistic guarantees of finding bugs"): every actor (a connection's
	// emulator goroutines, a client) gets a tape-drawn priority, the enabled actor
	// of highest priority always runs, and at d-1 tape-drawn steps the running
	// actor drops below everybody else. 0 = the uniform random walk.
	PCT     int   `json:"pct,omitempty"`
	IdleCap int64 `json:"idleCapMs,omitempty"`
	Dump    bool  `json:"dump,omitempty"` // engine dumps internal state after every reply (turn mode)
	// Order, when set, fixes whose script advances next (one client index per consumed item); used by minimised replays
	Order []int `json:"order,omitempty"`
}

// Client is a scripted connection (or, with Admin, a sequence of lifecycle operations).
type Client struct {
	Name  string `json:"name,omitempty"`
	Emu   int    `json:"emu,omitempty"`   // emulator instance it connects to
	Depth int    `json:"depth,omitempty"` // pipeline depth (0 = 1)
	Items []Item `json:"items"`
	Lazy  bool   `json:"lazy,omitempty"` // do not connect before the first item needs it
}

// Item is one step of a client script.
type Item struct {
	Op   string `json:"op,omitempty"` // "" = command; see engine.go for the others
	Args []B    `json:"a,omitempty"`
	Raw  B      `json:"raw,omitempty"` // bytes sent verbatim instead of Args
	N    int64  `json:"n,omitempty"`   // numeric operand (adv: ns; barrier: id; emu ops: instance)
	S    string `json:"s,omitempty"`   // string operand
	Tag  string `json:"tag,omitempty"` // generator annotation used by oracles
	// NoReply: nothing is expected back (malformed input); the script continues at once.
	NoReply bool `json:"noReply,omitempty"`
	// Cuts: byte offsets at which the request is cut into separate deliveries (overrides the tape)
	Cuts []int `json:"cuts,omitempty"`
	// Now: a non-command item runs although replies are still outstanding.
	Now bool `json:"now,omitempty"`
}

func cmdItem(args ...string) Item { return Item{Args: bs(args...)} }

func (p *Plan) clone() *Plan {
	b, _ := json.Marshal(p)
	var q Plan
	json.Unmarshal(b, &q)
	return &q
}

// Tape is the sequence of choices the scheduler makes during a run.
type Tape struct {
	Rec    []uint32
	pos    int
	rng    *rand.Rand
	replay bool
}

func newTape(seed uint64) *Tape {
	return &Tape{rng: rand.New(rand.NewPCG(seed, 0x9e3779b97f4a7c15))}
}

func replayTape(rec []uint32) *Tape {
	return &Tape{Rec: append([]uint32(nil), rec...), replay: true}
}

// Next returns a choice in [0,n). Choices are recorded reduced (mod n) so that
// 0 always means "the first alternative".
func (t *Tape) Next(n int) int {
	if n <= 1 {
		// still consume a slot so that positions stay aligned under shrinking? no:
		// a forced move is not a choice.
		return 0
	}
	var v uint32
	if t.pos < len(t.Rec) {
		v = t.Rec[t.pos] % uint32(n)
		t.Rec[t.pos] = v
	} else if t.replay {
		v = 0
		t.Rec = append(t.Rec, 0)
	} else {
		v = uint32(t.rng.IntN(n))
		t.Rec = append(t.Rec, v)
	}
	t.pos++
	return int(v)
}

func (t *Tape) used() []uint32 {
	if t.pos < len(t.Rec) {
		return t.Rec[:t.pos]
	}
	return t.Rec
}
