package sim

import (
	"strconv"
	"strings"
)

// observation appends, after barrier b, a client that reads every key of the
// universe with one read command per type, so that the final state is part of
// the history the oracle checks.
func observation(keys []string, b int64, dbs ...int) Client {
	items := []Item{{Op: "barrier", N: b}}
	if len(dbs) == 0 {
		dbs = []int{0}
	}
	for _, db := range dbs {
		if len(dbs) > 1 || db != 0 {
			it := cmdItem("SELECT", strconv.Itoa(db))
			it.Tag = "obs"
			items = append(items, it)
		}
		for _, k := range keys {
			for _, c := range [][]string{{"TYPE", k}, {"GET", k}, {"LRANGE", k, "0", "-1"}, {"HGETALL", k}, {"SMEMBERS", k}, {"PTTL", k}} {
				it := cmdItem(c...)
				it.Tag = "obs"
				items = append(items, it)
			}
		}
		it := cmdItem("DBSIZE")
		it.Tag = "obs"
		items = append(items, it)
	}
	return Client{Name: "observer", Items: items, Lazy: true}
}

// concCmd: read-modify-write and multi-key commands on typed keys.
// concWrite: a command that stores something whatever the key held before.
func (g *Gen) concWrite(tk map[mType][]string) []string {
	ks := func(t mType) string {
		l := tk[t]
		if len(l) == 0 {
			return g.key()
		}
		return l[g.r.IntN(len(l))]
	}
	switch g.r.IntN(4) {
	case 0:
		return []string{"SET", ks(tString), g.val()}
	case 1:
		return []string{"RPUSH", ks(tList), g.val()}
	case 2:
		return []string{"HSET", ks(tHash), "f" + strconv.Itoa(g.r.IntN(3)), g.val()}
	default:
		return []string{"SADD", ks(tSet), g.val()}
	}
}

func (g *Gen) concCmd(tk map[mType][]string) []string {
	ks := func(t mType) string {
		l := tk[t]
		if len(l) == 0 || g.chance(12) {
			return g.key()
		}
		return l[g.r.IntN(len(l))]
	}
	s, l, h, z := func() string { return ks(tString) }, func() string { return ks(tList) }, func() string { return ks(tHash) }, func() string { return ks(tSet) }
	switch g.r.IntN(48) {
	case 0, 1, 2:
		return []string{"INCR", s()}
	case 3:
		return []string{"DECRBY", s(), strconv.Itoa(1 + g.r.IntN(5))}
	case 4, 5:
		return []string{"APPEND", s(), g.pick("1", "2", "7")}
	case 6:
		return []string{"SETRANGE", s(), strconv.Itoa(g.r.IntN(4)), g.pick("9", "88")}
	case 7:
		return []string{"GETSET", s(), strconv.Itoa(g.r.IntN(100))}
	case 8:
		return []string{"GETDEL", s()}
	case 9:
		return []string{"GET", s()}
	case 10:
		return []string{"SET", s(), strconv.Itoa(g.r.IntN(100))}
	case 11, 12:
		return []string{g.pick("MSET", "MSETNX"), s(), g.val(), s(), g.val()}
	case 13:
		return []string{"MGET", s(), s()}
	case 14, 15, 16:
		return []string{g.pick("LPUSH", "RPUSH"), l(), g.val(), g.val()}
	case 17, 18:
		return []string{g.pick("LPOP", "RPOP"), l()}
	case 19:
		return []string{"LRANGE", l(), "0", "-1"}
	case 20:
		return []string{"LMOVE", l(), l(), g.pick("LEFT", "RIGHT"), g.pick("LEFT", "RIGHT")}
	case 21:
		return []string{"LSET", l(), g.pick("0", "-1", "1"), g.val()}
	case 22:
		return []string{"LINSERT", l(), g.pick("BEFORE", "AFTER"), "e" + strconv.Itoa(g.r.IntN(3)), g.val()}
	case 23:
		return []string{"LTRIM", l(), g.pick("0", "1"), g.pick("-1", "-2", "1")}
	case 24:
		return []string{"RPUSH", l(), "e" + strconv.Itoa(g.r.IntN(3))}
	case 25, 26:
		return []string{"HINCRBY", h(), g.field(), strconv.Itoa(1 + g.r.IntN(5))}
	case 27:
		return []string{"HSET", h(), g.field(), g.val(), g.field(), g.val()}
	case 28:
		return []string{"HDEL", h(), g.field(), g.field()}
	case 29:
		return []string{"HGETALL", h()}
	case 30, 31:
		return []string{"SADD", z(), g.member(), g.member()}
	case 32:
		return []string{"SREM", z(), g.member(), g.member()}
	case 33:
		return []string{"SMOVE", z(), z(), g.member()}
	case 34:
		return []string{g.pick("SINTERSTORE", "SUNIONSTORE", "SDIFFSTORE"), z(), z(), z()}
	case 35:
		return []string{"SMEMBERS", z()}
	case 36:
		return []string{g.pick("RENAME", "RENAMENX"), g.key(), g.key()}
	case 37:
		return []string{"COPY", g.key(), g.key(), "REPLACE"}
	case 38:
		return []string{"DEL", g.key(), g.key()}
	case 39:
		return []string{"EXISTS", g.key(), g.key(), g.key()}
	case 40:
		return []string{g.pick("TTL", "TYPE", "TOUCH"), g.key()}
	case 41:
		return []string{"EXPIRE", g.key(), "100000"}
	case 42:
		return []string{"PERSIST", g.key()}
	case 43, 44:
		// the whole key space in one reply: a multi-key command seen half done shows here
		return []string{"KEYS", g.pick("*", "k*", "k[0-2]")}
	case 45:
		return []string{"MSET", g.key(), g.val(), g.key(), g.val(), g.key(), g.val()}
	case 46:
		return []string{g.pick("DEL", "UNLINK"), g.key(), g.key(), g.key()}
	default:
		return []string{"DBSIZE"}
	}
}

func genConcPlan(prop string, seed uint64, thorough bool) *Plan {
	g := newGen(seed, 2)
	g.keys = []string{"k0", "k1", "k2", "k3"}[:2+g.r.IntN(3)]
	p := &Plan{Prop: prop, Seed: seed, Knobs: Knobs{RandSeed: int64(seed), MaxSteps: 40000}}
	p.Knobs.Frag = g.chance(3)
	p.Knobs.Sticky = []int{0, 30, 60, 85}[g.r.IntN(4)]
	p.Knobs.Stall = []int{0, 20, 20, 40}[g.r.IntN(4)]
	p.Knobs.PCT = []int{0, 0, 0, 2, 3}[g.r.IntN(5)]
	p.Knobs.UnlockYield = g.chance(2)
	tk := map[mType][]string{}
	types := []mType{tString, tList, tHash, tSet}
	for i, k := range g.keys {
		t := types[(i+int(seed))%4]
		if g.chance(3) {
			t = types[g.r.IntN(4)]
		}
		tk[t] = append(tk[t], k)
	}
	nc := 2 + g.r.IntN(3)
	if (prop == "C08" && seed%6 == 5) || prop == "C14" {
		nc = 3 + g.r.IntN(2)
	}
	maxOps := 10
	if thorough {
		maxOps = 12
	}
	// class twodb: the connections work in two databases, with flushes of
	// everything (all database locks at once) in between
	twodb := (prop == "C08" && seed%6 == 5) || prop == "C14"
	otherDb := 1 + g.r.IntN(15)
	if twodb {
		p.Class = "twodb"
	}
	// ... variant latedb: the other database does not exist when the connections
	// start; one or two of them create it in mid-run (SELECT, write there, come
	// back, write here) while the others flush
	latedb := twodb && g.chance(3)
	toggle := prop == "C08" && !twodb && g.chance(4)
	// a collection large enough for an implementation to treat it differently
	// (lazy reclamation, chunked copies): removed and re-created under load
	bigcoll := prop == "C08" && !twodb && g.chance(5)
	// a short sequential prologue creates the typed keys
	var pro []Item
	for _, t := range types {
		for _, k := range tk[t] {
			switch t {
			case tString:
				pro = append(pro, cmdItem("SET", k, strconv.Itoa(g.r.IntN(50))))
			case tList:
				pro = append(pro, cmdItem("RPUSH", k, "e0", "e1", g.val()))
			case tHash:
				pro = append(pro, cmdItem("HSET", k, "f0", "1", "f1", g.val()))
			case tSet:
				pro = append(pro, cmdItem("SADD", k, "m0", "m1", "m2"))
			}
		}
	}
	// two bitmap operands that only ever receive string writes (so that BITOP
	// always has non-empty sources)
	bitkeys := prop == "C08" && g.chance(3)
	if bitkeys {
		pro = append(pro, cmdItem("SET", "b0", "ab"), cmdItem("SET", "b1", "Cd"))
	}
	// deterministic order of the prologue
	sortItems(pro)
	if bigcoll {
		a := []string{"RPUSH", "big"}
		for j := 0; j < 80; j++ {
			a = append(a, "b"+strconv.Itoa(j))
		}
		pro = append(pro, cmdItem(a...))
	}
	pro = append(pro, Item{Op: "barrier", N: 1})
	p.Clients = append(p.Clients, Client{Name: "setup", Items: pro})
	for c := 0; c < nc; c++ {
		g.client = c + 1
		items := []Item{{Op: "barrier", N: 1}}
		n := 3 + g.r.IntN(maxOps-2)
		if twodb && !latedb && (c%2 == 1 || g.chance(3)) {
			// several connections select the same, not yet existing database at
			// the same time (it is created by the first SELECT that names it)
			items = append(items, cmdItem("SELECT", strconv.Itoa(otherDb)))
		}
		// a connection that has owned the database exclusively before (EXEC,
		// CLIENT INFO/LIST) must be locked out like any other afterwards
		owned := -1
		if g.chance(3) {
			owned = g.r.IntN(n)
		}
		visit := -1
		if latedb && (c == 0 || g.chance(3)) {
			visit = g.r.IntN(n)
		}
		for i := 0; i < n; i++ {
			if i == visit {
				items = append(items, cmdItem("SELECT", strconv.Itoa(otherDb)), Item{Args: bs(g.concWrite(tk)...)}, cmdItem("SELECT", "0"), Item{Args: bs(g.concWrite(tk)...)})
				continue
			}
			if latedb && visit < 0 && g.chance(3) {
				items = append(items, cmdItem("FLUSHALL"))
				continue
			}
			if i == owned {
				switch g.r.IntN(3) {
				case 0:
					items = append(items, cmdItem("CLIENT", g.pick("INFO", "LIST")))
				default:
					if g.chance(2) {
						// (an EXEC that may be aborted by what the others do meanwhile)
						items = append(items, cmdItem("WATCH", g.key()))
					}
					items = append(items, cmdItem("MULTI"))
					for q := g.r.IntN(3); q > 0; q-- {
						items = append(items, Item{Args: bs(g.concCmd(tk)...)})
					}
					items = append(items, cmdItem("EXEC"))
				}
			}
			if bitkeys && g.chance(3) {
				bk, other := "b0", "b1"
				if g.chance(2) {
					bk, other = other, bk
				}
				switch g.r.IntN(6) {
				case 0, 1, 2:
					// accumulate into one of the operands: a lost update shows
					items = append(items, cmdItem("BITOP", g.pick("OR", "XOR", "AND"), bk, bk, other))
				case 3:
					items = append(items, cmdItem("APPEND", bk, g.pick("x", "Y", "\x01")))
				case 4:
					items = append(items, cmdItem("SETRANGE", bk, g.pick("0", "1"), g.pick("q", "\xf0")))
				default:
					items = append(items, cmdItem("GET", bk))
				}
				continue
			}
			if bigcoll && g.chance(3) {
				switch g.r.IntN(6) {
				case 0, 1:
					items = append(items, cmdItem(g.pick("UNLINK", "UNLINK", "DEL"), "big"))
				case 2:
					items = append(items, cmdItem("RPUSH", "big", g.val(), g.val()))
				case 3:
					a := []string{"RPUSH", "big"}
					for j := 0; j < 70; j++ {
						a = append(a, "r"+strconv.Itoa(j))
					}
					items = append(items, cmdItem(a...))
				case 4:
					items = append(items, cmdItem("LLEN", "big"))
				default:
					items = append(items, cmdItem("LRANGE", "big", "0", "1"))
				}
				continue
			}
			if toggle && g.chance(2) {
				// all-or-nothing visibility of multi-key commands: a group of names is
				// created and removed as a whole, and looked at as a whole
				switch g.r.IntN(8) {
				case 0, 1:
					items = append(items, cmdItem("MSET", "n0", g.val(), "n1", g.val(), "n2", g.val()))
				case 2:
					items = append(items, cmdItem(g.pick("DEL", "UNLINK"), "n0", "n1", "n2"))
				case 3:
					items = append(items, cmdItem("MSETNX", "n0", g.val(), "n1", g.val(), "n2", g.val()))
				case 4:
					items = append(items, cmdItem("KEYS", "n*"))
				case 5:
					items = append(items, cmdItem("EXISTS", "n0", "n1", "n2"))
				case 6:
					items = append(items, cmdItem("MGET", "n0", "n1", "n2"))
				default:
					if g.chance(2) {
						items = append(items, cmdItem("DBSIZE"))
					} else {
						items = append(items, cmdItem("KEYS", "*"))
					}
				}
				continue
			}
			if twodb && g.chance(6) {
				// (COPY ... DB n is answered "database copy not supported" by the
				// emulator, so FLUSHALL is the only command that takes several
				// database locks at once)
				items = append(items, cmdItem(g.pick("FLUSHALL", "FLUSHALL", "FLUSHDB")))
				continue
			}
			if twodb && g.chance(7) {
				// moving between the two databases in mid-run: a database may come into
				// being while somebody else's FLUSHALL is already under way
				items = append(items, cmdItem("SELECT", g.pick("0", strconv.Itoa(otherDb))))
				continue
			}
			items = append(items, Item{Args: bs(g.concCmd(tk)...)})
		}
		items = append(items, Item{Op: "barrier", N: 2})
		p.Clients = append(p.Clients, Client{Items: items, Depth: 1 + g.r.IntN(2)})
	}
	p.Clients[0].Items = append(p.Clients[0].Items, Item{Op: "barrier", N: 2})
	obsKeys := g.keys
	if bitkeys {
		obsKeys = append(append([]string{}, g.keys...), "b0", "b1")
	}
	if toggle {
		obsKeys = append(append([]string{}, obsKeys...), "n0", "n1", "n2")
	}
	if bigcoll {
		obsKeys = append(append([]string{}, obsKeys...), "big")
	}
	if twodb {
		p.Clients = append(p.Clients, observation(obsKeys, 2, 0, otherDb))
	} else {
		p.Clients = append(p.Clients, observation(obsKeys, 2))
	}
	return p
}

func sortItems(items []Item) {
	for i := 1; i < len(items); i++ {
		for j := i; j > 0 && string(items[j].Args[1]) < string(items[j-1].Args[1]); j-- {
			items[j], items[j-1] = items[j-1], items[j]
		}
	}
}

// genConcTxPlan: the concurrent class of C09/C10. 2-3 connections run
// transactions (optionally WATCHed) and plain commands on shared keys at the
// same time; the whole history, EXEC as one operation, must be linearizable.
func genConcTxPlan(prop string, seed uint64, thorough bool) *Plan {
	g := newGen(seed, 7)
	g.keys = []string{"k0", "k1", "k2"}[:2+g.r.IntN(2)]
	p := &Plan{Prop: prop, Seed: seed, Class: "conc", Knobs: Knobs{RandSeed: int64(seed), MaxSteps: 60000}}
	p.Knobs.Frag = g.chance(4)
	p.Knobs.Sticky = []int{0, 30, 60, 85}[g.r.IntN(4)]
	p.Knobs.Stall = []int{0, 20, 20, 40}[g.r.IntN(4)]
	p.Knobs.PCT = []int{0, 0, 0, 2, 3}[g.r.IntN(5)]
	p.Knobs.UnlockYield = g.chance(2)
	tk := map[mType][]string{}
	types := []mType{tString, tList, tHash, tSet}
	var pro []Item
	for i, k := range g.keys {
		t := types[(i+int(seed))%4]
		if g.chance(3) {
			t = tString // counters make lost updates visible
		}
		tk[t] = append(tk[t], k)
		switch t {
		case tString:
			pro = append(pro, cmdItem("SET", k, strconv.Itoa(g.r.IntN(50))))
		case tList:
			pro = append(pro, cmdItem("RPUSH", k, "e0", "e1", g.val()))
		case tHash:
			pro = append(pro, cmdItem("HSET", k, "f0", "1", "f1", g.val()))
		case tSet:
			pro = append(pro, cmdItem("SADD", k, "m0", "m1", "m2"))
		}
	}
	pro = append(pro, Item{Op: "barrier", N: 1})
	p.Clients = append(p.Clients, Client{Name: "setup", Items: pro})
	nc := 2 + g.r.IntN(2)
	budget := 22
	if thorough {
		budget = 28
	}
	for c := 0; c < nc; c++ {
		g.client = c + 1
		items := []Item{{Op: "barrier", N: 1}}
		add := func(a ...string) { items = append(items, cmdItem(a...)) }
		ntx := 1 + g.r.IntN(2)
		if g.chance(2) {
			add("SELECT", "1") // this connection works in the second database
		}
		for t := 0; t < ntx && len(items) < budget/nc+4; t++ {
			if prop == "C10" || g.chance(3) {
				add("WATCH", g.key())
				if g.chance(3) {
					// optimistic read-modify-write
					add(g.pick("GET", "TYPE", "EXISTS"), g.key())
				}
				if g.chance(4) {
					// the transaction runs in another database than the watched key lives
					// in: the check of the watch and the effects of the queue are still one step
					add("SELECT", g.pick("0", "1"))
				}
			}
			if g.chance(4) {
				add(g.concCmd(tk)...)
			}
			add("MULTI")
			if g.chance(2) {
				// the transaction moves to the other database half way: EXEC has to
				// own that one too for the rest of the queue
				add(g.concCmd(tk)...)
				add("SELECT", g.pick("0", "1"))
				add("INCR", firstOr(tk[tString], g.key()))
			}
			for q := 1 + g.r.IntN(3); q > 0; q-- {
				if g.chance(3) {
					add("INCR", firstOr(tk[tString], g.key()))
				} else {
					add(g.concCmd(tk)...)
				}
			}
			if g.chance(10) {
				add("DISCARD")
			} else {
				add("EXEC")
			}
			if g.chance(2) {
				add(g.concCmd(tk)...)
			}
			if g.chance(5) {
				// what an EXEC (run or aborted) leaves behind in the connection must
				// not change how its later commands take their locks
				if g.chance(2) {
					add("SELECT", g.pick("0", "1"))
				}
				add(g.pick("FLUSHALL", "FLUSHALL", "FLUSHDB"))
			}
		}
		items = append(items, Item{Op: "barrier", N: 2})
		p.Clients = append(p.Clients, Client{Items: items, Depth: 1 + g.r.IntN(2)})
	}
	p.Clients[0].Items = append(p.Clients[0].Items, Item{Op: "barrier", N: 2})
	if g.chance(4) {
		// one connection is killed by another at some point of its program - also in
		// the middle of its EXEC, whose reply is then lost but whose effect must
		// still be all of the queue or nothing
		killer, victim := 1+g.r.IntN(nc), 1+g.r.IntN(nc)
		if killer != victim {
			its := p.Clients[killer].Items
			at := 1 + g.r.IntN(len(its)-1)
			// (not inside the killer's own MULTI, where the command would only be queued)
			depth := 0
			for i := 0; i < at; i++ {
				switch strings.ToUpper(string(firstArg(its[i]))) {
				case "MULTI":
					depth = 1
				case "EXEC", "DISCARD":
					depth = 0
				}
			}
			if depth == 0 {
				kill := cmdItem("CLIENT", "KILL", "ID", "$id:"+strconv.Itoa(victim))
				p.Clients[killer].Items = append(its[:at:at], append([]Item{kill}, its[at:]...)...)
			}
		}
	}
	p.Clients = append(p.Clients, observation(g.keys, 2, 0, 1))
	return p
}

func firstArg(it Item) B {
	if len(it.Args) == 0 {
		return ""
	}
	return it.Args[0]
}
