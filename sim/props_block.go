package sim

import (
	"fmt"
	"sort"
	"strconv"
	"strings"
	"time"

	redisemu "github.com/jimsnab/go-redisemu"
)

func isBlockingCmd(name string) bool {
	switch strings.ToLower(name) {
	case "blpop", "brpop", "blmove", "brpoplpush", "blmpop":
		return true
	}
	return false
}

// blockKeys: the list keys a blocking command waits on.
func blockKeys(argv []string) []string {
	switch strings.ToLower(argv[0]) {
	case "blpop", "brpop":
		return argv[1 : len(argv)-1]
	case "blmove", "brpoplpush":
		return argv[1:2]
	case "blmpop":
		n, _ := strconv.Atoi(argv[2])
		if n > 0 && 3+n <= len(argv) {
			return argv[3 : 3+n]
		}
	}
	return nil
}

func (g *Gen) blockingPop(keys []string, timeout string) []string {
	k := keys[g.r.IntN(len(keys))]
	k2 := keys[g.r.IntN(len(keys))]
	switch g.r.IntN(8) {
	case 0, 1, 2:
		a := []string{g.pick("BLPOP", "BRPOP"), k}
		if g.chance(3) {
			// (the same key may be named more than once: one waiter, several queue entries)
			a = append(a, k2)
			if g.chance(3) {
				a = append(a, k)
			}
		}
		return append(a, timeout)
	case 3:
		return []string{"BLMOVE", k, "dst", g.pick("LEFT", "RIGHT"), g.pick("LEFT", "RIGHT"), timeout}
	case 4:
		return []string{"BRPOPLPUSH", k, "dst", timeout}
	case 5:
		a := []string{"BLMPOP", timeout, "1", k, g.pick("LEFT", "RIGHT")}
		if g.chance(2) {
			a = append(a, "COUNT", g.pick("1", "2"))
		}
		return a
	default:
		return []string{"BLPOP", k, timeout}
	}
}

// genBlockPlan: C11 - consumers, producers, competitors on a few lists.
func genBlockPlan(seed uint64, thorough bool) *Plan {
	g := newGen(seed, 5)
	keys := []string{"l0", "l1", "l2"}[:1+g.r.IntN(3)]
	g.keys = keys
	p := &Plan{Prop: "C11", Seed: seed, Knobs: Knobs{RandSeed: int64(seed), MaxSteps: 60000, IdleCap: 3000}}
	p.Knobs.Sticky = []int{0, 20, 50, 80}[g.r.IntN(4)]
	p.Knobs.Stall = []int{0, 20, 20, 40}[g.r.IntN(4)]
	p.Knobs.PCT = []int{0, 0, 0, 2, 3}[g.r.IntN(5)]
	p.Knobs.UnlockYield = g.chance(2)
	p.Knobs.Frag = g.chance(4)
	class := g.r.IntN(5)
	if class == 4 {
		// giveup class: the first waiter in line gives up (timeout, CLIENT
		// UNBLOCK) at about the moment a push arrives; the element must reach it
		// or the waiter behind it - never stay in the list with somebody blocked
		p.Class = "giveup"
		k := keys[0]
		to := g.pick("0.05", "0.3", "1")
		how := g.pick("timeout", "unblock", "unblock-error")
		if how != "timeout" {
			to = g.pick("0", "100")
		}
		p.Clients = append(p.Clients, Client{Name: "waiter", Items: []Item{{Args: bs(g.pick("BLPOP", "BRPOP"), k, to)}, cmdItem("PING")}})
		nb := 1 + g.r.IntN(2)
		for w := 0; w < nb; w++ {
			p.Clients = append(p.Clients, Client{Name: "waiter", Items: []Item{{Op: "await-blocked", N: int64(w)}, cmdItem(g.pick("BLPOP", "BRPOP"), k, "0")}})
		}
		// the event that ends the first waiter's block
		var ender []Item
		ender = append(ender, Item{Op: "await-blocked", N: int64(nb)})
		switch how {
		case "timeout":
			d, _ := time.ParseDuration(to + "s")
			ender = append(ender, Item{Op: "adv", N: int64(d) - int64(time.Millisecond)}, Item{Op: "adv", N: int64(2 * time.Millisecond)})
		case "unblock":
			ender = append(ender, cmdItem("CLIENT", "UNBLOCK", "$id:0"))
		default:
			ender = append(ender, cmdItem("CLIENT", "UNBLOCK", "$id:0", "ERROR"))
		}
		p.Clients = append(p.Clients, Client{Name: "ender", Items: ender})
		g.client = 9
		push := []Item{{Op: "await-blocked", N: int64(nb)}}
		for i := 0; i < 1+g.r.IntN(2); i++ {
			push = append(push, cmdItem(g.pick("LPUSH", "RPUSH"), k, g.val()))
		}
		p.Clients = append(p.Clients, Client{Name: "pusher", Items: push})
		obs := observation(append(append([]string{}, keys...), "dst"), 2)
		obs.Items = append([]Item{{Op: "await-idle"}}, obs.Items[1:]...)
		p.Clients = append(p.Clients, obs)
		return p
	}
	if class == 0 {
		// FIFO class: waiters on one key, registered in a known order, one pusher, no competitor
		p.Class = "fifo"
		nw := 2 + g.r.IntN(3)
		k := keys[0]
		for w := 0; w < nw; w++ {
			items := []Item{}
			if w > 0 {
				items = append(items, Item{Op: "await-blocked", N: int64(w - 1)})
			}
			items = append(items, cmdItem(g.pick("BLPOP", "BRPOP"), k, "0"))
			p.Clients = append(p.Clients, Client{Name: "waiter", Items: items})
		}
		push := []Item{{Op: "await-blocked", N: int64(nw - 1)}}
		np := 1 + g.r.IntN(nw+1)
		for i := 0; i < np; i++ {
			g.client = 9
			if g.chance(5) {
				push = append(push, cmdItem("MULTI"), cmdItem(g.pick("LPUSH", "RPUSH"), k, g.val()), cmdItem("EXEC"))
			} else {
				push = append(push, cmdItem(g.pick("LPUSH", "RPUSH"), k, g.val()))
			}
		}
		push = append(push, Item{Op: "await-idle"}, Item{Op: "barrier", N: 2})
		p.Clients = append(p.Clients, Client{Name: "pusher", Items: push})
		p.Clients = append(p.Clients, observation(append(keys, "dst"), 2))
		return p
	}
	if class == 1 && len(keys) >= 2 {
		// multikey class: a waiter on several keys with single-key waiters
		// queued behind it; pushes to several of its keys arrive together (one
		// EXEC, or two producers at once). A waiter woken through one key must
		// not consume the wake-up meant for the next waiter of another key.
		p.Class = "multikey"
		mk := []string{g.pick("BLPOP", "BRPOP")}
		mk = append(mk, keys...)
		mk = append(mk, "0")
		if g.chance(4) {
			mk = append([]string{"BLMPOP", "0", strconv.Itoa(len(keys))}, keys...)
			mk = append(mk, g.pick("LEFT", "RIGHT"))
		}
		p.Clients = append(p.Clients, Client{Name: "waiter", Items: []Item{{Args: bs(mk...)}}})
		nw := 1 + g.r.IntN(3)
		for w := 0; w < nw; w++ {
			k := keys[1+g.r.IntN(len(keys)-1)]
			if g.chance(4) {
				k = keys[0]
			}
			p.Clients = append(p.Clients, Client{Name: "waiter", Items: []Item{{Op: "await-blocked", N: int64(w)}, cmdItem(g.pick("BLPOP", "BRPOP"), k, "0")}})
		}
		g.client = 9
		var pushes [][]string
		for _, k := range keys {
			if g.chance(5) {
				continue
			}
			pushes = append(pushes, []string{g.pick("LPUSH", "RPUSH"), k, g.val()})
		}
		if len(pushes) == 0 {
			pushes = append(pushes, []string{"RPUSH", keys[0], g.val()})
		}
		if g.chance(2) {
			items := []Item{{Op: "await-blocked", N: int64(nw)}, cmdItem("MULTI")}
			for _, a := range pushes {
				items = append(items, cmdItem(a...))
			}
			items = append(items, cmdItem("EXEC"))
			p.Clients = append(p.Clients, Client{Name: "producer", Items: items})
		} else {
			for _, a := range pushes {
				p.Clients = append(p.Clients, Client{Name: "producer", Items: []Item{{Op: "await-blocked", N: int64(nw)}, cmdItem(a...)}})
			}
		}
		obs := observation(append(append([]string{}, keys...), "dst"), 2)
		obs.Items = append([]Item{{Op: "await-idle"}}, obs.Items[1:]...)
		p.Clients = append(p.Clients, obs)
		return p
	}
	p.Class = "mixed"
	timed := g.chance(3)
	if timed {
		p.Class = "mixed-timed"
		p.Knobs.RandAdv = 6
	}
	nc := 2 + g.r.IntN(3)
	for c := 0; c < nc; c++ {
		g.client = c + 1
		var items []Item
		n := 1 + g.r.IntN(3)
		for i := 0; i < n; i++ {
			to := g.pick("0", "0", "0", "100")
			if timed {
				// waits that end by themselves while pushes arrive: a waiter that
				// gives up must not take a wake-up with it
				to = g.pick("0", "0.05", "0.3", "0.001")
			}
			items = append(items, Item{Args: bs(g.blockingPop(keys, to)...)})
		}
		p.Clients = append(p.Clients, Client{Name: "consumer", Items: items})
	}
	nconsumers := nc
	np := 1 + g.r.IntN(3)
	for c := 0; c < np; c++ {
		g.client = 10 + c
		var items []Item
		if c == 0 && g.chance(4) {
			// the destination of the blocking moves holds something that is not a
			// list: a woken BLMOVE fails with WRONGTYPE and leaves the element
			items = append(items, cmdItem(g.pick("SET", "SADD"), "dst", "x"))
		}
		n := 1 + g.r.IntN(4)
		for i := 0; i < n; i++ {
			k := keys[g.r.IntN(len(keys))]
			var a []string
			switch g.r.IntN(10) {
			case 0:
				a = []string{g.pick("LPUSHX", "RPUSHX"), k, g.val()}
			case 1:
				a = []string{"LMOVE", k, keys[g.r.IntN(len(keys))], g.pick("LEFT", "RIGHT"), g.pick("LEFT", "RIGHT")}
			case 2:
				a = []string{"RPOPLPUSH", k, keys[g.r.IntN(len(keys))]}
			case 3:
				// a whole list appears under a waited name at once: as many waiters
				// as it has elements are served
				st := []string{"RPUSH", "stage" + strconv.Itoa(c)}
				for j := 0; j <= 1+g.r.IntN(3); j++ {
					st = append(st, g.val())
				}
				items = append(items, Item{Args: bs(st...)})
				a = []string{"RENAME", "stage" + strconv.Itoa(c), k}
			default:
				a = []string{g.pick("LPUSH", "RPUSH"), k}
				for j := 0; j <= g.r.IntN(3); j++ {
					if g.chance(8) {
						a = append(a, "") // the empty element is an element
						continue
					}
					a = append(a, g.val())
				}
			}
			if g.chance(6) {
				items = append(items, cmdItem("MULTI"), Item{Args: bs(a...)}, cmdItem("EXEC"))
			} else {
				items = append(items, Item{Args: bs(a...)})
			}
		}
		p.Clients = append(p.Clients, Client{Name: "producer", Items: items})
	}
	nq := g.r.IntN(3)
	if timed {
		nq = 1 + g.r.IntN(2)
	}
	for c := 0; c < nq; c++ {
		g.client = 20 + c
		var items []Item
		n := 1 + g.r.IntN(3)
		for i := 0; i < n; i++ {
			k := keys[g.r.IntN(len(keys))]
			if timed && g.chance(3) {
				ub := []string{"CLIENT", "UNBLOCK", "$id:" + strconv.Itoa(g.r.IntN(nconsumers))}
				if g.chance(3) {
					ub = append(ub, g.pick("TIMEOUT", "ERROR"))
				}
				items = append(items, cmdItem(ub...))
				continue
			}
			switch g.r.IntN(9) {
			case 8:
				// a flush empties the lists; whoever is blocked stays blocked and
				// is served by the pushes that follow
				items = append(items, cmdItem(g.pick("FLUSHDB", "FLUSHALL")))
			case 0:
				items = append(items, cmdItem("LTRIM", k, "1", "-1"))
			case 1:
				items = append(items, cmdItem("DEL", k))
			case 2:
				items = append(items, cmdItem("RENAME", k, keys[g.r.IntN(len(keys))]))
			case 3:
				items = append(items, cmdItem("LMOVE", k, "dst", "LEFT", "RIGHT"))
			case 4:
				items = append(items, cmdItem("LLEN", k))
			default:
				items = append(items, cmdItem(g.pick("LPOP", "RPOP"), k))
			}
		}
		p.Clients = append(p.Clients, Client{Name: "competitor", Items: items})
	}
	// the observer starts when nothing else can move any more
	obs := observation(append(append([]string{}, keys...), "dst"), 2)
	obs.Items = append([]Item{{Op: "await-idle"}}, obs.Items[1:]...)
	p.Clients = append(p.Clients, obs)
	return p
}

// blockChecker: linearizability of the history (conservation, exactly-once,
// order) + no waiter left blocked on a non-empty list + FIFO among waiters.
type blockChecker struct {
	lin     linChecker
	plan    *Plan
	stuck   int
	blocked int
	served  int
}

func newBlockChecker(p *Plan) Checker { return &blockChecker{plan: p, lin: linChecker{plan: p}} }

func (c *blockChecker) OnReply(w *World, op *Op) *Violation { return nil }
func (c *blockChecker) OnStep(w *World) *Violation          { return nil }

func (c *blockChecker) Extra() map[string]int {
	m := c.lin.Extra()
	m["waiters-left-blocked"] = c.blocked
	m["blocking-served"] = c.served
	return m
}

func (c *blockChecker) Final(w *World) *Violation {
	if w.stats.EndReason == "step-budget" {
		return nil
	}
	// (3) no waiter stays blocked on a non-empty list once everything is quiet
	eng := w.Emu(0)
	dump := redisemu.SimDumpDb(eng, 0)
	nowT := w.WallNow()
	for _, op := range w.history {
		if len(op.Item.Args) == 0 || !isBlockingCmd(string(op.Item.Args[0])) {
			continue
		}
		if op.Return >= 0 {
			if op.Reply.K == KArray || op.Reply.K == KBulk {
				c.served++
			}
			continue
		}
		if op.Lost {
			continue
		}
		c.blocked++
		for _, k := range blockKeys(strs(op.Item.Args)) {
			if o, ok := dump[k]; ok && o.Type == "list" && len(o.List) > 0 && o.ExpiresAt.After(nowT) {
				c.stuck++
				return &Violation{Oracle: "stuck-waiter", Step: w.step, Fp: "stuck-waiter:" + strings.ToLower(string(op.Item.Args[0])),
					Msg: fmt.Sprintf("the run is quiescent (%s), yet client %d is still blocked in %s while list %q holds %d element(s) %q\n%s",
						w.stats.EndReason, op.Client, fmtArgs(strs(op.Item.Args)), k, len(o.List), clipList(o.List), historyText(w))}
			}
		}
	}
	// (4) FIFO class: the i-th pushed element completes the i-th registered waiter
	if c.plan.Class == "fifo" {
		if v := c.fifo(w); v != nil {
			return v
		}
	}
	// (1)(2) conservation, exactly-once and order through the model
	return c.lin.Final(w)
}

func (c *blockChecker) fifo(w *World) *Violation {
	type waiter struct {
		client int
		op     *Op
	}
	var ws []waiter
	var pushes []*Op
	for _, op := range w.history {
		if len(op.Item.Args) == 0 {
			continue
		}
		n := strings.ToLower(string(op.Item.Args[0]))
		if isBlockingCmd(n) {
			ws = append(ws, waiter{op.Client, op})
		} else if (n == "lpush" || n == "rpush") && op.Return >= 0 {
			pushes = append(pushes, op)
		}
	}
	// waiters registered in client order (each waited for the previous one to be blocked)
	sort.Slice(ws, func(i, j int) bool { return ws[i].client < ws[j].client })
	// inside MULTI the push reply is QUEUED; use the elements in push order
	var elems []string
	for _, op := range w.history {
		if len(op.Item.Args) >= 3 {
			n := strings.ToLower(string(op.Item.Args[0]))
			if n == "lpush" || n == "rpush" {
				elems = append(elems, string(op.Item.Args[2]))
			}
		}
	}
	_ = pushes
	for i, wt := range ws {
		if i < len(elems) {
			if wt.op.Return < 0 {
				return &Violation{Oracle: "fifo", Step: w.step, Fp: "fifo:unserved",
					Msg: fmt.Sprintf("%d elements were pushed while %d clients were blocked, but waiter %d (blocked %s in line) got nothing\n%s", len(elems), len(ws), wt.client, ordinal(i), historyText(w))}
			}
			// which element it gets is not prescribed (several pushes may land
			// before the woken clients run); linearizability checks that part
		} else if wt.op.Return >= 0 {
			return &Violation{Oracle: "fifo", Step: w.step, Fp: "fifo:overserved",
				Msg: fmt.Sprintf("only %d elements were pushed, yet waiter %d (%s in line) completed with %s\n%s", len(elems), wt.client, ordinal(i), wt.op.Reply.String(), historyText(w))}
		}
	}
	return nil
}

func ordinal(i int) string { return strconv.Itoa(i+1) + "." }

func historyText(w *World) string {
	var sb strings.Builder
	for _, op := range w.history {
		if op.Item.Tag == "obs" {
			continue
		}
		r := "(no reply)"
		if op.Return >= 0 {
			r = clipS(op.Reply.String(), 80)
		}
		fmt.Fprintf(&sb, "  c%d [%d,%d] %s -> %s\n", op.Client, op.Invoke, op.Return, fmtArgs(strs(op.Item.Args)), r)
	}
	return sb.String()
}

var _ = time.Second
