//go:build race

package sim

import "runtime"

const raceBuild = true

func raceOff() { runtime.RaceDisable() }
func raceOn()  { runtime.RaceEnable() }
