#!/bin/bash
# Runs the 68 pinned tests of BASELINE.json (guard off) by name; prints pass/fail counts.
cd /repo || exit 2
names=$(python3 -c "
import json
b=json.load(open('/root/.vp/BASELINE.json'))
print('|'.join(sorted(n.split('::')[1] for n in b['stable_pass'])))")
export GOFLAGS=-mod=mod GOPROXY=off GOSUMDB=off
out=$(go test -vet=off -count=1 -timeout 10m -run "^($names)\$" -v . 2>&1)
pass=$(echo "$out" | grep -c '^--- PASS')
fail=$(echo "$out" | grep -c '^--- FAIL')
echo "pass=$pass fail=$fail"
if [ "$pass" != "68" ] || [ "$fail" != "0" ]; then echo "$out" | grep -v '^=== RUN\|^--- PASS' | tail -40; exit 1; fi
