#!/bin/bash
# Runs the repository's whole suite (guard off) and compares with the 242 tests that passed before any fix (reference list in /verif/bin/full_base_pass.json).
cd /repo || exit 2
export GOFLAGS=-mod=mod GOPROXY=off GOSUMDB=off
out=${1:-$(mktemp /tmp/full_now.XXXXXX.json)}
go test -json -vet=off -count=1 -timeout 25m ./... > $out 2>&1
python3 - "$out" <<'PY'
import json,sys
ref=set(json.load(open('/verif/bin/full_base_pass.json')))
p=set();f=set()
for l in open(sys.argv[1]):
    try: e=json.loads(l)
    except: continue
    if e.get('Action')=='pass' and e.get('Test'): p.add(e['Test'])
    if e.get('Action')=='fail' and e.get('Test'): f.add(e['Test'])
print(len(p),'pass',len(f),'fail')
print('failing:',sorted(f))
print('passed before but not now:',sorted(ref-p))
PY
[ -n "$1" ] || rm -f "$out"
