#!/bin/bash
# runs every registered check of MANIFEST.json in the given tier (default quick); prints one line per check
tier=${1:-quick}
V=${VERIF_DIR:-/verif}
cd $V
for p in $(python3 -c "import json; print(' '.join(c['property_id'] for c in json.load(open('MANIFEST.json'))['checks']))"); do
  s=$(date +%s)
  out=$(bin/check $p --tier $tier 2>&1); rc=$?
  e=$(date +%s)
  echo "$p rc=$rc $((e-s))s $(echo "$out" | grep -c '^KNOWN-FINDING') known | $(echo "$out" | tail -1)"
  if [ $rc -ne 0 ]; then echo "$out" | grep "violation class\|^VIOLATION\|WORKER\|HARNESS\|UNREPRODUCED" | head -8; fi
done
