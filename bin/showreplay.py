#!/usr/bin/env python3
import json,sys
for f in sys.argv[1:]:
    r=json.load(open(f))
    print(f)
    for c in r['plan']['clients']:
        print('  ',c.get('name','client'), [ (it.get('op') or ' '.join((x if isinstance(x,str) else 'hex:'+x['x'][:16]) for x in it.get('a',[]))) for it in (c['items'] or [])])
    print('  knobs',r['plan']['knobs'])
    print('  ->', r['violation']['msg'][:600])
    print('\n'.join('   '+e for e in r.get('events',[]) if (' C ' in e and ('send' in e or 'adv' in e or 'close' in e or 'emu' in e)) or ' R ' in e or ' A ' in e))
