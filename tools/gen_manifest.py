#!/usr/bin/env python3
# Regenerates /verif/MANIFEST.json from the table below (kept in one place so that it stays valid).
import json, subprocess
props=[json.loads(l) for l in open('/verif/properties.jsonl')]
hooks=subprocess.run("git -C /repo log --reverse --format='%h %s' | grep 'verif hooks' | awk '{print $1}'",shell=True,capture_output=True,text=True).stdout.split()
TECH="deterministic simulation with fault injection: seeded scheduler over the emulator's real goroutines, fake clock, in-memory transport; "
claimed={
 'C02':("exploration","stepwise refinement against a sequential reference model","DESIGN.md 4.4, 7"),
 'C03':("exploration","stepwise refinement against a sequential reference model","DESIGN.md 4.4, 7"),
 'C04':("exploration","stepwise refinement against a sequential reference model","DESIGN.md 4.4, 7"),
 'C05':("exploration","stepwise refinement against a sequential reference model","DESIGN.md 4.4, 7"),
 'C06':("exploration","stepwise refinement against a sequential reference model","DESIGN.md 4.4, 7"),
 'C07':("exploration","stepwise refinement against a sequential reference model at exact simulated instants","DESIGN.md 4.4, 7"),
 'C08':("exploration","seeded schedule search + linearizability check of recorded histories (porcupine) against the reference model","DESIGN.md 4.4, 7"),
 'C09':("exploration","transaction programs over turn-taking connections refined against the model's session automaton","DESIGN.md 7"),
 'C10':("exploration","watch programs: every kind of modification at every position, decided by the model's per-key modification counters","DESIGN.md 7"),
 'C11':("exploration","seeded schedule search through the block/wake protocol points; linearizability + stuck-waiter + FIFO oracles","DESIGN.md 7"),
 'C12':("exploration","simulated-clock timeout assertions, CLIENT UNBLOCK/KILL/close injected at protocol points, conservation and livelock/deadlock detection","DESIGN.md 7"),
 'C14':("exploration","multi-connection multi-database turn-taking histories refined against the model","DESIGN.md 7"),
 'C01':("exploration","twin runs (whole vs fragmented/pipelined delivery) with byte-identical replies, per-connection model refinement, all split offsets of one frame","DESIGN.md 7"),
 'C13':("exploration","hostile bytes and hostile arguments injected next to model-checked victim connections; panics recovered and fingerprinted, process death attributed and replayed","DESIGN.md 7"),
 'C15':("exploration","RESP2/RESP3 twin connections on equal state, relational oracle down(RESP3)==RESP2, HELLO at seeded positions","DESIGN.md 7"),
 'C16':("exploration","race-detector build driven by the same seeded scheduler with race-transparent hand-offs","DESIGN.md 2.7, 7"),
 'C17':("exploration","full SCAN/HSCAN/SSCAN iterations interleaved with mutation bursts at command granularity, always-present/ever-present sets from the model","DESIGN.md 7"),
 'C19':("fault_enumeration","restart after clean shutdown refined against the model; crash images captured at snapshot write stages with torn-file variants, each restarted","DESIGN.md 7"),
 'C20':("exploration","termination injected while clients are idle/mid-frame/in MULTI/blocked/not reading; successor on the same port; second instance in the same bubble","DESIGN.md 7"),
}
TEXT={
 'seq':"Seeded exploration: generated histories run in the deterministic simulator (fake clock, fragmented delivery, EXEC-wrapped variants, seeded rand); after every command the reply and the complete stored state are compared with an independent sequential Redis-7 reference model, and structural invariants of the store are walked. Evidence for the explored histories only; the right level because the property quantifies over unbounded histories and inputs.",
 'conc':"Seeded exploration of schedules: every emulator goroutine is parked at hook sites (lock boundaries, store primitives, wake-ups, protocol points) and released one at a time from a seeded tape, so one seed is one exactly repeatable interleaving; oracles run on the recorded history (scheduler step numbers as invoke/return). A clean batch is evidence for the explored schedules, not a proof; the property quantifies over all interleavings, which only sampling can reach on the real code.",
}
checks=[]
for pid,(lvl,tech,ref) in sorted(claimed.items()):
    kind='seq' if pid in ('C02','C03','C04','C05','C06','C07','C09','C10','C14') else 'conc'
    checks.append({
     "property_id":pid,
     "quick_cmd":"bin/check %s --tier quick"%pid,
     "thorough_cmd":"bin/check %s --tier thorough"%pid,
     "evidence_file":"/verif/evidence/%s.json"%pid,
     "replay_cmd_template":"bin/check %s --replay {path} -v"%pid,
     "engine":"sim",
     "level_claimed":{"category":lvl,"text":TEXT[kind],"design_ref":ref},
     "level_note":"Trusted: the reference model (sim/model_*.go) for the generated input space; the verif-tagged inspection code in /repo (sim_inspect.go); Go 1.26.8 testing/synctest (fake clock, quiescence); porcupine v1.3.0 where used. Open known findings (known_findings.jsonl) are excluded from generation except for one sentinel each.",
     "technique":TECH+tech
    })
done=set(c['property_id'] for c in checks)
na=[]
for p in props:
    if p['id'] in done: continue
    if p['id']=='C18':
        na.append({"property_id":"C18","reason":"pure function of (stored bytes, arguments): no schedule, clock, fault or interleaving for a simulator to decide; needs bounded-exhaustive/property-based testing, a different technique (DESIGN.md 8)"})
    else:
        na.append({"property_id":p['id'],"reason":"check not registered yet (being built; see DESIGN.md 7)"})
m={"version":1,
 "setup_cmd":"cd /verif/sim && export GOFLAGS=-mod=mod GOPROXY=off GOSUMDB=off GOTOOLCHAIN=local && go1.26.8 build -o /verif/bin/vcheck ./cmd/vcheck && go1.26.8 test -tags verif -c -o /verif/bin/simworker .",
 "hooks":{"guard":"verif (Go build tag)","enable":"go1.26.8 test -tags verif in /verif/sim, whose go.mod replaces github.com/jimsnab/go-redisemu => /repo; hooks are installed at run time with redisemu.SimInstall",
   "baseline_off_cmd":"cd /repo && go test -json -vet=off -count=1 -timeout 25m ./...",
   "source_commits":hooks,"add_only":False},
 "engines":[{"name":"sim","path":"/verif/sim","serves_properties":sorted(done),"kind_free_text":"deterministic simulator for the emulator: seeded scheduler over parked goroutines, synctest fake clock, in-memory transport, reference model, oracles, shrinker, driver (sim/cmd/vcheck)"}],
 "checks":checks,
 "not_applicable":na,
 "notes":"exit codes: 0 held / 1 VIOLATION / 2 harness trouble. VERIF_SEED selects the seed block. H6 rewrites one token (net.Listen -> netListen) and H8 rewrites the map ranges and the two multi-ready selects it puts behind seams (simKeys, simSelectFirst), hence add_only=false. bin/check selftest-determinism | selftest-race | selftest-hooks are harness self-tests (exit 0 / 2)."}
json.dump(m,open('/verif/MANIFEST.json','w'),indent=1)
print("claimed:",sorted(done))
