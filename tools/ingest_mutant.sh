#!/bin/bash
# usage: ingest_mutant.sh <ID> <A|B> <check ids...>
# re-confirms a delivered change in its scratch worktree /tmp/mut/<ID>, stores it under /verif/seeded/<ID>-<X>, runs the named checks against it
ID=$1; X=$2; shift; shift
V=${VERIF_DIR:-/verif}
S=${STORE_AS:-$X}; D=$V/seeded/$ID-$S; mkdir -p $D
/tmp/mut/verify.sh $ID $X > $D/verify_output.txt 2>&1
grep -A1 "^== " $D/verify_output.txt | grep -v "^--" | tr '\n' ' ' | cut -c1-400; echo
cp /tmp/mut/$ID/patch$X.diff $D/patch.diff; cp /tmp/mut/$ID/zz_demo_${X}_test.go $D/demo_test.go; cp /tmp/mut/$ID/meta$X.json $D/agent_meta.json
$V/tools/try_mutant.sh $ID-$S "$@" 2>&1 | tee $D/check_output.txt
