#!/bin/bash
# usage: baseline68.sh <repo-dir>   -- runs the 68 pinned tests of the repository in that directory
cd "$1" || exit 2
names='TestAvlDeleteLeft|TestAvlDeletePromoteLeft|TestAvlDeletePromoteLeftFull|TestAvlDeletePromoteRight|TestAvlDeleteReplace|TestAvlDeleteReplace2|TestAvlDeleteRight|TestAvlDeleteRoot|TestAvlDeleteRootWithLeft|TestAvlDeleteRootWithRight|TestAvlInsertDelete22|TestAvlInsertDelete5|TestAvlInsertDelete6|TestAvlInsertDeleteRandom|TestAvlInsertLL|TestAvlInsertLR|TestAvlInsertRL|TestAvlInsertRR|TestAvlMultiLevel|TestAvlMultiLevel2|TestAvlMultiLevel3|TestAvlMultiLevel4|TestAvlMultiLevel5|TestBitCountMissing|TestBitCountOneByteOneBit|TestBitCountOneByteZeroBit|TestBitCountTwoBytesThreeBits|TestBitOp|TestBitPos|TestBitfieldGet|TestBitfieldIncrby|TestBitfieldIncrbyNeighbors|TestBitfieldRo|TestBitfieldSetNeighbors|TestBitfieldSetResp2|TestBitfieldSetResp3|TestBundledCommands|TestGetBit|TestLongestMin|TestLongestSeqDocs|TestLongestSeqEmpty|TestLongestSeqExact|TestLongestSeqMiddleA|TestLongestSeqMiddleAt2|TestLongestSeqPrefix|TestLongestSeqSingleX|TestLongestSeqSplit|TestLongestSeqSuffix|TestRedisClientId|TestRedisClientInfo|TestRedisClientKillAddr|TestRedisClientKillId|TestRedisClientKillLAddr|TestRedisClientKillOldSyntax|TestRedisClientKillRepeated|TestRedisClientKillSkipMe|TestRedisClientKillSyntax|TestRedisClientKillTypeMaster|TestRedisClientKillTypeNormal|TestRedisClientKillTypeSlaveReplicaPubsub|TestRedisClientKillUser|TestRedisClientList|TestRedisClientName|TestRedisClientNoEvict|TestRedisClientSelect|TestRedisEcho|TestRedisPing|TestSetBit'
export GOFLAGS=-mod=mod GOPROXY=off GOSUMDB=off
out=$(go test -vet=off -count=1 -timeout 10m -run "^($names)\$" -v . 2>&1)
pass=$(echo "$out" | grep -c '^--- PASS')
fail=$(echo "$out" | grep -c '^--- FAIL')
echo "pass=$pass fail=$fail"
if [ "$pass" != "68" ] || [ "$fail" != "0" ]; then echo "$out" | grep -v '^=== RUN\|^--- PASS\|TRACE\|DEBUG\|INFO' | tail -30; exit 1; fi
