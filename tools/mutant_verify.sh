#!/bin/bash
# usage: verify.sh <ID> <A|B>  -- re-confirms a delivered mutant in its own worktree
ID=$1; X=$2; D=/tmp/mut/$ID
export GOFLAGS=-mod=mod GOPROXY=off GOSUMDB=off
cd $D || exit 2
git checkout -q -- . 
[ -z "$(git diff --stat)" ] || { echo "worktree not clean"; exit 2; }
echo "== clean demo (3x)"
go test $RACEFLAG -vet=off -count=3 -timeout 5m -run "^TestDemo$X\$" . 2>&1 | tail -2
git apply patch$X.diff || { echo "APPLY FAILED"; exit 1; }
go build ./... || { echo "BUILD FAILED"; git checkout -q -- .; exit 1; }
echo "== baseline with mutant"
/tmp/mut/baseline68.sh $D | head -3
echo "== demo with mutant"
go test $RACEFLAG -vet=off -count=1 -timeout 5m -run "^TestDemo$X\$" . 2>&1 | grep -v "TRACE\|DEBUG\|INFO" | tail -4
git checkout -q -- .
