#!/bin/bash
# usage: try_mutant.sh <seeded-dir> <check-id> [more check ids...]
# applies /verif/seeded/<dir>/patch.diff to /repo, runs the quick tier of the named checks, undoes the patch.
# The undo runs from a trap, so that an interrupted run (closed pipe, Ctrl-C) cannot leave the patch in /repo.
V=${VERIF_DIR:-/verif}; R=${VERIF_REPO:-/repo}
D=$V/seeded/$1; shift
cd $R || exit 2
[ -z "$(git status --porcelain)" ] || { echo "/repo not clean"; exit 2; }
trap 'git -C $R checkout -- . ; [ -z "$(git -C $R status --porcelain)" ] || echo "WARNING: $R not clean after undo" >&2' EXIT
trap 'exit 130' INT TERM PIPE HUP
git apply "$D/patch.diff" || { echo "APPLY FAILED"; exit 2; }
for id in "$@"; do
  s=$(date +%s)
  out=$($V/bin/check $id --tier ${TIER:-quick} 2>&1); rc=$?
  e=$(date +%s)
  echo "$id rc=$rc $((e-s))s | $(echo "$out" | grep -c '^VIOLATION') VIOLATION lines | $(echo "$out" | tail -1)"
  echo "$out" | grep "violation class\|^VIOLATION\|HARNESS" | head -6
done
